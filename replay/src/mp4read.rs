#[derive(Debug, Clone)]
pub struct BoxRef { pub typ: [u8; 4], pub start: usize, pub size: usize }
impl BoxRef {
    pub fn payload<'a>(&self, d: &'a [u8]) -> &'a [u8] { &d[self.start + 8..self.start + self.size] }
    pub fn name(&self) -> String { String::from_utf8_lossy(&self.typ).into_owned() }
}
pub fn be32(d: &[u8], o: usize) -> u32 { u32::from_be_bytes([d[o], d[o + 1], d[o + 2], d[o + 3]]) }
pub fn be16(d: &[u8], o: usize) -> u16 { u16::from_be_bytes([d[o], d[o + 1]]) }
pub fn be64(d: &[u8], o: usize) -> u64 { ((be32(d, o) as u64) << 32) | be32(d, o + 4) as u64 }

/// Boxes must tile [lo, hi) exactly.
pub fn boxes(d: &[u8], lo: usize, hi: usize) -> Result<Vec<BoxRef>, String> {
    let mut v = Vec::new();
    let mut p = lo;
    while p < hi {
        if p + 8 > hi { return Err(format!("slack of {} bytes at {}", hi - p, p)); }
        let size = be32(d, p) as usize;
        if size < 8 || p + size > hi { return Err(format!("box at {} has size {} (parent ends at {})", p, size, hi)); }
        v.push(BoxRef { typ: [d[p + 4], d[p + 5], d[p + 6], d[p + 7]], start: p, size });
        p += size;
    }
    Ok(v)
}
pub fn find<'a>(v: &'a [BoxRef], t: &[u8; 4]) -> Vec<&'a BoxRef> { v.iter().filter(|b| &b.typ == t).collect() }
pub fn one<'a>(v: &'a [BoxRef], t: &[u8; 4]) -> Result<&'a BoxRef, String> {
    let f = find(v, t);
    if f.len() == 1 { Ok(f[0]) } else { Err(format!("expected exactly one {:?}, found {}", String::from_utf8_lossy(t), f.len())) }
}
pub fn children(d: &[u8], b: &BoxRef, skip: usize) -> Result<Vec<BoxRef>, String> { boxes(d, b.start + 8 + skip, b.start + b.size) }

#[derive(Debug, Clone, Default, PartialEq)]
pub struct Track {
    pub handler: [u8; 4],
    pub timescale: u32,
    pub mdhd_duration: u64,
    pub language: u16,
    pub durations: Vec<u32>,      // expanded stts
    pub cts: Option<Vec<i32>>,    // expanded ctts
    pub sizes: Vec<u32>,
    pub offsets: Vec<u64>,        // absolute offset per sample (via stsc/stco)
    pub sync: Option<Vec<u32>>,   // 1-based
    pub stsd_entry: Vec<u8>,
    pub has_edts: bool,
    pub tkhd: Vec<u8>,
}
#[derive(Debug, Clone, Default)]
pub struct Movie { pub top: Vec<(String, usize, usize)>, pub mvhd: Vec<u8>, pub tracks: Vec<Track>, pub udta: Option<Vec<u8>>, pub mdat: Option<(usize, usize)> }

pub fn parse(d: &[u8]) -> Result<Movie, String> {
    let top = boxes(d, 0, d.len())?;
    let mut m = Movie::default();
    m.top = top.iter().map(|b| (b.name(), b.start, b.size)).collect();
    if let Some(b) = find(&top, b"mdat").first() { m.mdat = Some((b.start + 8, b.start + b.size)); }
    let moov = one(&top, b"moov")?;
    let mc = children(d, moov, 0)?;
    m.mvhd = one(&mc, b"mvhd")?.payload(d).to_vec();
    m.udta = find(&mc, b"udta").first().map(|b| d[b.start..b.start + b.size].to_vec());
    for trak in find(&mc, b"trak") {
        let tc = children(d, trak, 0)?;
        let mut t = Track::default();
        t.tkhd = one(&tc, b"tkhd")?.payload(d).to_vec();
        t.has_edts = !find(&tc, b"edts").is_empty();
        let mdia = one(&tc, b"mdia")?;
        let mdc = children(d, mdia, 0)?;
        let mdhd = one(&mdc, b"mdhd")?.payload(d);
        if mdhd[0] == 0 { t.timescale = be32(mdhd, 12); t.mdhd_duration = be32(mdhd, 16) as u64; t.language = be16(mdhd, 20); }
        else { t.timescale = be32(mdhd, 20); t.mdhd_duration = be64(mdhd, 24); t.language = be16(mdhd, 32); }
        let hdlr = one(&mdc, b"hdlr")?.payload(d);
        t.handler.copy_from_slice(&hdlr[8..12]);
        let minf = one(&mdc, b"minf")?;
        let mic = children(d, minf, 0)?;
        let dinf = one(&mic, b"dinf")?;
        let dc = children(d, dinf, 0)?;
        let dref = one(&dc, b"dref")?;
        let _ = children(d, dref, 8)?;
        let stbl = one(&mic, b"stbl")?;
        let sc = children(d, stbl, 0)?;
        let stsd = one(&sc, b"stsd")?;
        let se = children(d, stsd, 8)?;
        if se.len() != 1 { return Err("stsd entry count".into()); }
        t.stsd_entry = d[se[0].start..se[0].start + se[0].size].to_vec();
        let stts = one(&sc, b"stts")?.payload(d);
        let n = be32(stts, 4) as usize;
        if stts.len() != 8 + 8 * n { return Err("stts size".into()); }
        for i in 0..n { let c = be32(stts, 8 + 8 * i); let dl = be32(stts, 12 + 8 * i); for _ in 0..c { t.durations.push(dl); } }
        if let Some(b) = find(&sc, b"ctts").first() {
            let p = b.payload(d); let n = be32(p, 4) as usize;
            if p.len() != 8 + 8 * n { return Err("ctts size".into()); }
            let mut v = Vec::new();
            for i in 0..n { let c = be32(p, 8 + 8 * i); let o = be32(p, 12 + 8 * i) as i32; for _ in 0..c { v.push(o); } }
            t.cts = Some(v);
        }
        let stsz = one(&sc, b"stsz")?.payload(d);
        let uni = be32(stsz, 4); let cnt = be32(stsz, 8) as usize;
        if uni == 0 { if stsz.len() != 12 + 4 * cnt { return Err("stsz size".into()); } for i in 0..cnt { t.sizes.push(be32(stsz, 12 + 4 * i)); } }
        else { for _ in 0..cnt { t.sizes.push(uni); } }
        let stco = one(&sc, b"stco")?.payload(d);
        let nch = be32(stco, 4) as usize;
        if stco.len() != 8 + 4 * nch { return Err("stco size".into()); }
        let chunk_off: Vec<u64> = (0..nch).map(|i| be32(stco, 8 + 4 * i) as u64).collect();
        let stsc = one(&sc, b"stsc")?.payload(d);
        let ne = be32(stsc, 4) as usize;
        if stsc.len() != 8 + 12 * ne { return Err("stsc size".into()); }
        let ents: Vec<(u32, u32)> = (0..ne).map(|i| (be32(stsc, 8 + 12 * i), be32(stsc, 12 + 12 * i))).collect();
        // expand chunks -> samples
        let mut si = 0usize;
        for (ci, &co) in chunk_off.iter().enumerate() {
            let cn = ci as u32 + 1;
            let mut spc = 0;
            for &(first, n) in &ents { if first <= cn { spc = n; } }
            let mut off = co;
            for _ in 0..spc { if si >= t.sizes.len() { return Err("stsc describes more samples than stsz".into()); } t.offsets.push(off); off += t.sizes[si] as u64; si += 1; }
        }
        if si != t.sizes.len() { return Err(format!("chunks cover {} samples, stsz has {}", si, t.sizes.len())); }
        if let Some(b) = find(&sc, b"stss").first() {
            let p = b.payload(d); let n = be32(p, 4) as usize;
            t.sync = Some((0..n).map(|i| be32(p, 8 + 4 * i)).collect());
        }
        m.tracks.push(t);
    }
    Ok(m)
}
pub fn sample<'a>(d: &'a [u8], t: &Track, i: usize) -> &'a [u8] { &d[t.offsets[i] as usize..t.offsets[i] as usize + t.sizes[i] as usize] }
