//! Small valid inputs.
use std::io::Write;
use std::sync::{Arc, Mutex};

pub fn h264_key() -> Vec<u8> {
    vec![0, 0, 0, 1, 0x67, 0x42, 0x00, 0x1e, 0xda, 0x02, 0x80, 0x2d, 0x8b, 0x11, 0, 0, 0, 1, 0x68, 0xce, 0x38, 0x80, 0, 0, 0, 1, 0x65, 0xaa, 0xbb]
}
pub fn h264_delta(tag: u8) -> Vec<u8> { vec![0, 0, 0, 1, 0x41, 0x9a, tag] }
/// ADTS frame, protection absent, 44.1 kHz, stereo, given payload
pub fn adts(payload: &[u8]) -> Vec<u8> {
    let len = 7 + payload.len();
    let mut f = vec![0xff, 0xf1, 0x50, 0x80 | ((len >> 11) as u8 & 3), (len >> 3) as u8, ((len & 7) as u8) << 5 | 0x1f, 0xfc];
    f.extend_from_slice(payload);
    f
}
#[derive(Clone, Default)]
pub struct SharedSink(pub Arc<Mutex<Vec<u8>>>);
impl Write for SharedSink {
    fn write(&mut self, b: &[u8]) -> std::io::Result<usize> { self.0.lock().unwrap().extend_from_slice(b); Ok(b.len()) }
    fn flush(&mut self) -> std::io::Result<()> { Ok(()) }
}
impl SharedSink { pub fn bytes(&self) -> Vec<u8> { self.0.lock().unwrap().clone() } }
