//! Independent strict ISO-BMFF reader + helpers used by the witness programs and the replay driver.
//! Written from ISO/IEC 14496-12; shares no code with /repo.
pub mod mp4read;
pub mod fixtures;
