//! W-C12-cts: presentation time just above 2^63 ticks with a small decode time: `pts as i64 - dts as i64` overflowed at finish.
use muxide::api::{MuxerBuilder, VideoCodec};
use muxide_replay::fixtures::*;

#[test]
fn c12_finish_with_pts_beyond_i64_ticks() {
    let sink = SharedSink::default();
    let mut m = MuxerBuilder::new(sink.clone()).video(VideoCodec::H264, 64, 64, 30.0).build().unwrap();
    m.write_video_with_dts(0.0, 0.0, &h264_key(), true).unwrap();
    let pts = ((1u64 << 63) as f64 + 4096.0) / 90000.0;
    let ticks = (pts * 90000.0).round() as u64;
    assert!(ticks >= 1u64 << 63 && ticks < (1u64 << 63) + 90000, "ticks {}", ticks);
    m.write_video_with_dts(pts, 1.0, &h264_delta(1), false).unwrap();
    let r = std::panic::catch_unwind(std::panic::AssertUnwindSafe(|| m.finish_in_place()));
    assert!(r.is_ok(), "finish panicked");
}
