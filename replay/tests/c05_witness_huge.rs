//! W-C05-3 (heavy, ~9 GiB RAM): an oversized video frame is rejected only after the previous sample's duration was patched.
use muxide::api::{MuxerBuilder, VideoCodec};
use muxide_replay::fixtures::*;
use muxide_replay::mp4read;

#[test]
#[ignore]
fn c05_rejected_oversized_video_frame_changes_file() {
    let run = |with_rejected: bool| {
        let sink = SharedSink::default();
        let mut m = MuxerBuilder::new(sink.clone()).video(VideoCodec::H264, 64, 64, 30.0).build().unwrap();
        m.write_video(0.0, &h264_key(), true).unwrap();
        if with_rejected {
            // 3.5 GiB of 1-byte NAL units with 3-byte start codes: 4 bytes in -> 5 bytes out => > u32::MAX after conversion
            let n: usize = 3_500_000_000 / 4;
            let mut big = Vec::with_capacity(n * 4);
            for _ in 0..n { big.extend_from_slice(&[0, 0, 1, 0x41]); }
            assert!(m.write_video(1.0, &big, false).is_err());
        }
        m.finish().unwrap();
        sink.bytes()
    };
    let a = run(true);
    let b = run(false);
    let (ma, mb) = (mp4read::parse(&a).unwrap(), mp4read::parse(&b).unwrap());
    assert_eq!(ma.tracks[0].durations, mb.tracks[0].durations, "video stts differs after a rejected call");
}
