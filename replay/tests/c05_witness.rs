//! Witnesses for the C05 findings (rejected calls leave a trace) on the pinned tree.
use muxide::api::{AacProfile, AudioCodec, MuxerBuilder, VideoCodec};
use muxide_replay::fixtures::*;
use muxide_replay::mp4read;

/// W-C05-1: a rejected first video frame records first_video_pts; later audio is judged against it.
#[test]
fn c05_rejected_first_video_frame_changes_later_audio_decision() {
    let run = |with_rejected: bool| {
        let sink = SharedSink::default();
        let mut m = MuxerBuilder::new(sink.clone()).video(VideoCodec::H264, 64, 64, 30.0)
            .audio(AudioCodec::Aac(AacProfile::Lc), 44100, 2).build().unwrap();
        if with_rejected {
            assert!(m.write_video(5.0, &h264_delta(1), false).is_err());   // rejected: first frame must be a keyframe
        }
        m.write_video(0.0, &h264_key(), true).unwrap();
        m.write_audio(1.0, &adts(&[1, 2, 3])).is_ok()
    };
    assert_eq!(run(true), run(false), "a rejected call changed a later accept/reject decision");
}

/// W-C05-2: a rejected audio frame back-patches the previous audio sample's duration.
#[test]
fn c05_rejected_audio_frame_changes_file() {
    let run = |with_rejected: bool| {
        let sink = SharedSink::default();
        let mut m = MuxerBuilder::new(sink.clone()).video(VideoCodec::H264, 64, 64, 30.0)
            .audio(AudioCodec::Aac(AacProfile::Lc), 44100, 2).build().unwrap();
        m.write_video(0.0, &h264_key(), true).unwrap();
        m.write_audio(0.0, &adts(&[1, 2, 3])).unwrap();
        if with_rejected {
            assert!(m.write_audio(1.0, &[0u8; 16]).is_err());             // rejected: not ADTS
        }
        m.finish().unwrap();
        sink.bytes()
    };
    let a = run(true);
    let b = run(false);
    let (ma, mb) = (mp4read::parse(&a).unwrap(), mp4read::parse(&b).unwrap());
    assert_eq!(ma.tracks[1].durations, mb.tracks[1].durations, "audio stts differs after a rejected call");
    assert_eq!(a, b);
}
