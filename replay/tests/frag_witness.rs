//! Witnesses for the fragmented-muxer findings (C11, C12, C16, C19).
use muxide::fragmented::{FragmentConfig, FragmentedMuxer};
use muxide_replay::mp4read::{be32, be64, boxes, children, one};

fn tfdt_of(seg: &[u8]) -> u64 {
    let top = boxes(seg, 0, seg.len()).unwrap();
    let moof = one(&top, b"moof").unwrap();
    let mc = children(seg, moof, 0).unwrap();
    let traf = one(&mc, b"traf").unwrap();
    let tc = children(seg, traf, 0).unwrap();
    let tfdt = one(&tc, b"tfdt").unwrap().payload(seg);
    assert_eq!(tfdt[0], 1);
    be64(tfdt, 4)
}
fn trun_durations(seg: &[u8]) -> Vec<u32> {
    let top = boxes(seg, 0, seg.len()).unwrap();
    let moof = one(&top, b"moof").unwrap();
    let mc = children(seg, moof, 0).unwrap();
    let traf = one(&mc, b"traf").unwrap();
    let tc = children(seg, traf, 0).unwrap();
    let trun = one(&tc, b"trun").unwrap().payload(seg);
    let n = be32(trun, 4) as usize;
    (0..n).map(|i| be32(trun, 12 + 16 * i)).collect()
}
const D: &[u8] = &[0, 0, 0, 1, 0x65];

/// W-C11-1: the base decode time must never move backwards.
#[test]
fn c11_tfdt_never_moves_backwards() {
    let mut m = FragmentedMuxer::new(FragmentConfig::default());
    let mut bases = vec![];
    m.write_video(0, 0, D, true).unwrap();
    m.write_video(9000, 9000, D, false).unwrap();
    bases.push(tfdt_of(&m.flush_segment().unwrap()));
    m.write_video(9000, 9000, D, false).unwrap();
    bases.push(tfdt_of(&m.flush_segment().unwrap()));
    m.write_video(9000, 9000, D, false).unwrap();
    bases.push(tfdt_of(&m.flush_segment().unwrap()));
    assert!(bases.windows(2).all(|w| w[0] <= w[1]), "tfdt sequence {:?}", bases);
}
/// W-C11-2: constant frame interval, non-zero start: tfdt - first DTS must be one stream-wide constant.
#[test]
fn c11_tfdt_constant_offset_from_first_dts() {
    let mut m = FragmentedMuxer::new(FragmentConfig::default());
    m.write_video(9000, 9000, D, true).unwrap();
    m.write_video(12000, 12000, D, false).unwrap();
    let c1 = 9000i64 - tfdt_of(&m.flush_segment().unwrap()) as i64;
    m.write_video(15000, 15000, D, true).unwrap();
    m.write_video(18000, 18000, D, false).unwrap();
    let c2 = 15000i64 - tfdt_of(&m.flush_segment().unwrap()) as i64;
    assert_eq!(c1, c2);
}
/// W-C12-frag-1: zero timescale (public field) must not panic.
#[test]
fn c12_ready_to_flush_zero_timescale() {
    let mut cfg = FragmentConfig::default();
    cfg.timescale = 0;
    let mut m = FragmentedMuxer::new(cfg);
    m.write_video(0, 0, D, true).unwrap();
    m.write_video(10, 10, D, false).unwrap();
    assert!(std::panic::catch_unwind(std::panic::AssertUnwindSafe(|| { m.ready_to_flush(); m.current_fragment_duration_ms() })).is_ok());
}
/// W-C12-frag-2: huge span must not overflow.
#[test]
fn c12_ready_to_flush_huge_span() {
    let mut m = FragmentedMuxer::new(FragmentConfig::default());
    m.write_video(0, 0, D, true).unwrap();
    m.write_video(u64::MAX / 500, u64::MAX / 500, D, false).unwrap();
    let r = std::panic::catch_unwind(std::panic::AssertUnwindSafe(|| m.ready_to_flush()));
    assert_eq!(r.ok(), Some(true));
}
/// W-C12-frag-3: pts/dts beyond i64 range must not panic in the composition offset.
#[test]
fn c12_trun_cts_subtraction() {
    let mut m = FragmentedMuxer::new(FragmentConfig::default());
    m.write_video(1u64 << 63, 1, D, true).unwrap();
    assert!(std::panic::catch_unwind(std::panic::AssertUnwindSafe(|| m.flush_segment())).is_ok());
}
/// W-C12-frag-4: flush near the end of the DTS range must not panic.
#[test]
fn c12_flush_near_u64_max() {
    let mut m = FragmentedMuxer::new(FragmentConfig::default());
    m.write_video(u64::MAX - 10, u64::MAX - 10, D, true).unwrap();
    assert!(std::panic::catch_unwind(std::panic::AssertUnwindSafe(|| m.flush_segment())).is_ok());
}
/// W-C16-frag-1 (open): a DTS gap of 2^32 ticks is written as duration 0.
#[test]
fn c16_trun_duration_truncated() {
    let mut m = FragmentedMuxer::new(FragmentConfig::default());
    m.write_video(0, 0, D, true).unwrap();
    m.write_video(1u64 << 32, 1u64 << 32, D, false).unwrap();
    let d = trun_durations(&m.flush_segment().unwrap());
    assert_eq!(d[0] as u64, 1u64 << 32, "duration field {:?}", d);
}
