//! W-C01-1: reordered (B-frame) video together with audio: chunk offsets are handed out in PTS order but indexed in decode order.
use muxide::api::{AacProfile, AudioCodec, MuxerBuilder, VideoCodec};
use muxide_replay::fixtures::*;
use muxide_replay::mp4read;

#[test]
fn c01_bframes_with_audio_every_sample_resolves_to_its_bytes() {
    for fast in [false, true] {
        let sink = SharedSink::default();
        let mut m = MuxerBuilder::new(sink.clone()).video(VideoCodec::H264, 64, 64, 30.0)
            .audio(AudioCodec::Aac(AacProfile::Lc), 44100, 2).with_fast_start(fast).build().unwrap();
        // decode order I P B B, presentation order I B B P
        let t = 1.0 / 30.0;
        let frames: Vec<(f64, f64, Vec<u8>, bool)> = vec![
            (0.0, 0.0, h264_key(), true),
            (3.0 * t, 1.0 * t, h264_delta(0x11), false),
            (1.0 * t, 2.0 * t, [h264_delta(0x22), vec![0x22; 5]].concat(), false),
            (2.0 * t, 3.0 * t, [h264_delta(0x33), vec![0x33; 9]].concat(), false),
        ];
        for (pts, dts, d, k) in &frames { m.write_video_with_dts(*pts, *dts, d, *k).unwrap(); }
        m.write_audio(0.0, &adts(&[0xa1, 0xa2])).unwrap();
        m.write_audio(0.05, &adts(&[0xb1, 0xb2, 0xb3])).unwrap();
        m.finish().unwrap();
        let f = sink.bytes();
        let mv = mp4read::parse(&f).unwrap();
        let v = &mv.tracks[0];
        assert_eq!(v.sizes.len(), 4);
        for (i, (_, _, d, _)) in frames.iter().enumerate() {
            let expect = muxide::codec::h264::annexb_to_avcc(d);
            assert_eq!(mp4read::sample(&f, v, i), &expect[..], "fast_start={} video sample {} does not resolve to its bytes", fast, i);
        }
    }
}
