//! Witnesses for the AV1 sequence-header findings (C07, C12).
use muxide::codec::av1::extract_av1_config;

/// W-C07-av1-dmi: ordinary header with timing_info_present_flag = 0. AV1 spec 5.5.1 reads
/// decoder_model_info_present_flag only inside `if (timing_info_present_flag)`.
/// Bits: profile 000, still 0, reduced 0, timing_info_present 0, initial_display_delay_present 0,
/// operating_points_cnt_minus_1 00000, idc 000000000000, seq_level_idx 01000 (8), seq_tier 1, ...
#[test]
fn c07_av1_level_tier_of_header_without_timing_info() {
    let obu = [0x0a, 0x0d, 0x00, 0x00, 0x00, 0x44, 0xcf, 0xfc, 0x01, 0x80, 0x08, 0x00, 0x00, 0x00, 0x00];
    let c = extract_av1_config(&obu).expect("valid sequence header");
    assert_eq!((c.seq_profile, c.seq_level_idx, c.seq_tier, c.high_bitdepth), (0, 8, 1, false));
}

/// W-C12-av1-profile: reserved seq_profile must not panic.
#[test]
fn c12_av1_reserved_profile_does_not_panic() {
    assert!(std::panic::catch_unwind(|| extract_av1_config(&[0x0a, 0x01, 0x80])).is_ok());
}

/// W-C07-av1-mono (open finding): monochrome => chroma_sample_position is CSP_UNKNOWN (0), no bits are read for it.
#[test]
fn c07_av1_monochrome_chroma_sample_position() {
    let obu = [0x0a, 0x06, 0x18, 0x0c, 0xff, 0xc0, 0x4c, 0x00];
    let c = extract_av1_config(&obu).expect("valid reduced still picture header");
    assert!(c.monochrome);
    assert_eq!(c.chroma_sample_position, 0);
}

fn bits_to_obu(bits: &str) -> Vec<u8> {
    let b: Vec<u8> = bits.bytes().filter(|c| *c == b'0' || *c == b'1').map(|c| c - b'0').collect();
    let mut payload = vec![0u8; (b.len() + 7) / 8 + 8];
    for (i, bit) in b.iter().enumerate() { payload[i / 8] |= bit << (7 - i % 8); }
    let mut obu = vec![0x0a, payload.len() as u8];
    obu.extend_from_slice(&payload);
    obu
}

/// W-C07-av1-uvlc: uvlc() with 32 leading zeros returns 2^32-1 WITHOUT reading value bits (AV1 spec 4.10.3).
#[test]
fn c07_av1_uvlc_with_32_leading_zeros() {
    let mut s = String::new();
    s += "000 0 0";                       // seq_profile, still_picture, reduced_still_picture_header
    s += "1";                             // timing_info_present_flag
    s += &"0".repeat(31); s += "1";      // num_units_in_display_tick
    s += &"0".repeat(31); s += "1";      // time_scale
    s += "1";                             // equal_picture_interval
    s += &"0".repeat(32); s += "1";      // uvlc: 32 leading zeros, terminator, no value bits
    s += "0";                             // decoder_model_info_present_flag
    s += "0";                             // initial_display_delay_present_flag
    s += "00000";                         // operating_points_cnt_minus_1
    s += "000000000000";                  // operating_point_idc[0]
    s += "01000 1";                       // seq_level_idx[0] = 8, seq_tier[0] = 1
    let c = extract_av1_config(&bits_to_obu(&s)).expect("valid sequence header");
    assert_eq!((c.seq_level_idx, c.seq_tier), (8, 1));
}
