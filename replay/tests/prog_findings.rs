//! Witnesses for findings of the progressive muxer (C16, C19, C07, C12, C18, C09). Tests that FAIL on the current tree are the
//! open findings listed in /verif/known_findings.json; tests that pass document repaired defects.
use muxide::api::{AacProfile, AudioCodec, Metadata, MuxerBuilder, VideoCodec};
use muxide_replay::fixtures::*;
use muxide_replay::mp4read::{self, be16, be32, boxes, children, find, one, BoxRef};
use std::panic::{catch_unwind, AssertUnwindSafe};

fn path(d: &[u8], p: &[&[u8; 4]], nth_trak: usize) -> BoxRef {
    let mut level = boxes(d, 0, d.len()).unwrap();
    let mut cur = None;
    for (i, t) in p.iter().enumerate() {
        let b = if *t == b"trak" { find(&level, b"trak")[nth_trak].clone() } else { one(&level, t).unwrap().clone() };
        if i + 1 < p.len() {
            let skip = match &b.typ { b"stsd" => 8, b"avc1" | b"hvc1" | b"av01" | b"vp09" => 78, b"mp4a" | b"Opus" => 28, _ => 0 };
            level = children(d, &b, skip).unwrap();
        }
        cur = Some(b);
    }
    cur.unwrap()
}
fn h264_file(audio: Option<(AudioCodec, u32, u16)>) -> Vec<u8> {
    let sink = SharedSink::default();
    let mut b = MuxerBuilder::new(sink.clone()).video(VideoCodec::H264, 64, 64, 30.0);
    if let Some((c, r, ch)) = audio { b = b.audio(c, r, ch); }
    let mut m = b.build().unwrap();
    m.write_video(0.0, &h264_key(), true).unwrap();
    match audio {
        Some((AudioCodec::Aac(_), _, _)) => m.write_audio(0.0, &adts(&[1, 2, 3])).unwrap(),
        Some((AudioCodec::Opus, _, _)) => m.write_audio(0.0, &[0x08, 1, 2, 3]).unwrap(),
        _ => {}
    }
    m.finish().unwrap();
    sink.bytes()
}

/// 14496-12 8.3.2: tkhd version 0 is 92 bytes (the code writes the 4-byte duration as 8 bytes).
#[test]
fn c19_tkhd_size() {
    let f = h264_file(None);
    assert_eq!(path(&f, &[b"moov", b"trak", b"tkhd"], 0).size, 92);
}
/// 14496-12 8.3.2: track_enabled flag must be set for a playable track.
#[test]
fn c19_tkhd_track_enabled() {
    let f = h264_file(None);
    let b = path(&f, &[b"moov", b"trak", b"tkhd"], 0);
    assert_eq!(b.payload(&f)[3] & 1, 1);
}
/// 14496-12 12.1.2: vmhd flags = 1.
#[test]
fn c19_vmhd_flags() {
    let f = h264_file(None);
    let b = path(&f, &[b"moov", b"trak", b"mdia", b"minf", b"vmhd"], 0);
    assert_eq!(be32(b.payload(&f), 0), 1);
}
/// VP9-ISOBMFF: vpcC is a FullBox(version 1) of 20 bytes.
#[test]
fn c19_vpcc_is_a_fullbox() {
    let sink = SharedSink::default();
    let mut m = MuxerBuilder::new(sink.clone()).video(VideoCodec::Vp9, 64, 64, 30.0).build().unwrap();
    m.write_video(0.0, &[0x49, 0x83, 0x42, 0x00, 0x00, 0x10, 0x10, 0x00, 0x00, 0x00], true).unwrap();
    m.finish().unwrap();
    let f = sink.bytes();
    let b = path(&f, &[b"moov", b"trak", b"mdia", b"minf", b"stbl", b"stsd", b"vp09", b"vpcC"], 0);
    assert_eq!(b.size, 20);
    assert_eq!(be32(b.payload(&f), 0), 0x0100_0000);
}
/// C16: a recording longer than 2^32 ticks (13.25 h) must be reported, or carry exact durations; never a wrapped mdhd duration.
#[test]
fn c16_track_duration_beyond_32_bits() {
    let sink = SharedSink::default();
    let mut m = MuxerBuilder::new(sink.clone()).video(VideoCodec::H264, 64, 64, 30.0).build().unwrap();
    m.write_video(0.0, &h264_key(), true).unwrap();
    m.write_video(36000.0, &h264_delta(1), false).unwrap();
    m.write_video(72000.0, &h264_delta(2), false).unwrap();
    if m.finish_in_place().is_ok() {
        let f = sink.bytes();
        let mv = mp4read::parse(&f).unwrap();
        let sum: u64 = mv.tracks[0].durations.iter().map(|d| *d as u64).sum();
        assert_eq!(mv.tracks[0].mdhd_duration, sum, "mdhd duration is not the sum of the sample durations");
    }
}
/// C16: SPS of 64 KiB or more: the 16-bit length field of avcC cannot hold it.
#[test]
fn c16_avcc_parameter_set_length() {
    let sink = SharedSink::default();
    let mut m = MuxerBuilder::new(sink.clone()).video(VideoCodec::H264, 64, 64, 30.0).build().unwrap();
    let mut key = vec![0, 0, 0, 1, 0x67];
    key.extend(std::iter::repeat(0x55).take(70000));
    key.extend_from_slice(&[0, 0, 0, 1, 0x68, 0xce, 0x38, 0x80, 0, 0, 0, 1, 0x65, 0xaa]);
    if m.write_video(0.0, &key, true).is_ok() && m.finish_in_place().is_ok() {
        let f = sink.bytes();
        let b = path(&f, &[b"moov", b"trak", b"mdia", b"minf", b"stbl", b"stsd", b"avc1", b"avcC"], 0);
        assert_eq!(be16(b.payload(&f), 6) as usize, 70001);
    }
}
#[test]
fn c16_hvcc_parameter_set_length() {
    let sink = SharedSink::default();
    let mut m = MuxerBuilder::new(sink.clone()).video(VideoCodec::H265, 64, 64, 30.0).build().unwrap();
    let mut key = vec![0, 0, 0, 1, 0x40, 1];
    key.extend(std::iter::repeat(0x55).take(70000));
    key.extend_from_slice(&[0, 0, 0, 1, 0x42, 1, 1, 1, 0x60, 0, 0, 0, 0x90, 0, 0, 0, 0, 0, 0x5d, 0, 0, 0, 1, 0x44, 1, 0xc0, 0, 0, 0, 1, 0x26, 1, 0xaf]);
    if m.write_video(0.0, &key, true).is_ok() && m.finish_in_place().is_ok() {
        let f = sink.bytes();
        let b = path(&f, &[b"moov", b"trak", b"mdia", b"minf", b"stbl", b"stsd", b"hvc1", b"hvcC"], 0);
        assert_eq!(be16(b.payload(&f), 26) as usize, 70002);
    }
}
/// 14496-15 8.3.3.1: general_profile_compatibility_flags / constraint flags come from the SPS (a Main10 stream is not Main).
#[test]
fn c19_hvcc_profile_compatibility_from_sps() {
    let sink = SharedSink::default();
    let mut m = MuxerBuilder::new(sink.clone()).video(VideoCodec::H265, 64, 64, 30.0).build().unwrap();
    let key = [vec![0, 0, 0, 1, 0x40, 1, 0x0c, 1], vec![0, 0, 0, 1, 0x42, 1, 1, 2, 0x20, 0, 0, 0, 0xb0, 0, 0, 0, 0, 0, 0x5d, 0xa0], vec![0, 0, 0, 1, 0x44, 1, 0xc0], vec![0, 0, 0, 1, 0x26, 1, 0xaf]].concat();
    m.write_video(0.0, &key, true).unwrap();
    m.finish().unwrap();
    let f = sink.bytes();
    let b = path(&f, &[b"moov", b"trak", b"mdia", b"minf", b"stbl", b"stsd", b"hvc1", b"hvcC"], 0);
    assert_eq!(&b.payload(&f)[2..6], &[0x20, 0, 0, 0], "general_profile_compatibility_flags");
}
/// C16/C07: 96 kHz AAC: the 16.16 sample rate field of mp4a cannot hold it (sample_rate << 16 wraps).
#[test]
fn c16_mp4a_sample_rate_96k() {
    let f = h264_file(Some((AudioCodec::Aac(AacProfile::Lc), 96000, 2)));
    let b = path(&f, &[b"moov", b"trak", b"mdia", b"minf", b"stbl", b"stsd", b"mp4a"], 1);
    assert_eq!(be32(b.payload(&f), 24) as u64, 96000u64 << 16);
}
/// C16/C07: channel count 16 is written as 15 in the AudioSpecificConfig.
#[test]
fn c16_asc_channel_configuration() {
    let f = h264_file(Some((AudioCodec::Aac(AacProfile::Lc), 44100, 16)));
    let b = path(&f, &[b"moov", b"trak", b"mdia", b"minf", b"stbl", b"stsd", b"mp4a", b"esds"], 1);
    let p = b.payload(&f);
    let asc = &p[p.len() - 5..p.len() - 3];
    assert_eq!(((asc[1] >> 3) & 0x0f) as u16, 16);
}
/// C16/C07: dOps OutputChannelCount is 8 bits: 256 channels are written as 0.
#[test]
fn c16_dops_channel_count() {
    let f = h264_file(Some((AudioCodec::Opus, 48000, 256)));
    let b = path(&f, &[b"moov", b"trak", b"mdia", b"minf", b"stbl", b"stsd", b"Opus", b"dOps"], 1);
    assert_eq!(b.payload(&f)[1] as u16, 256);
}
/// RFC 7845 5.1.1: with mapping family 1 every ChannelMapping entry is < StreamCount + CoupledCount (or 255).
#[test]
fn c19_dops_channel_mapping_family_1() {
    let f = h264_file(Some((AudioCodec::Opus, 48000, 3)));
    let b = path(&f, &[b"moov", b"trak", b"mdia", b"minf", b"stbl", b"stsd", b"Opus", b"dOps"], 1);
    let p = b.payload(&f);
    assert_eq!(p[10], 1, "family");
    let (streams, coupled) = (p[11], p[12]);
    for i in 0..p[1] as usize { assert!(p[13 + i] == 255 || p[13 + i] < streams + coupled, "mapping[{}] = {}", i, p[13 + i]); }
}
/// C16: movie duration (ms) beyond 2^32 ms (49.7 days).
#[test]
fn c16_mvhd_duration_beyond_32_bits() {
    let sink = SharedSink::default();
    let mut m = MuxerBuilder::new(sink.clone()).video(VideoCodec::H264, 64, 64, 30.0).build().unwrap();
    m.write_video(0.0, &h264_key(), true).unwrap();
    for i in 1..100u32 { m.write_video(i as f64 * 46800.0, &h264_delta(i as u8), false).unwrap(); }     // 13 h apart
    if m.finish_in_place().is_ok() {
        let f = sink.bytes();
        let mv = mp4read::parse(&f).unwrap();
        let ticks: u64 = mv.tracks[0].durations.iter().map(|d| *d as u64).sum();
        assert_eq!(be32(&mv.mvhd, 16) as u64, ticks * 1000 / 90000);
    }
}
/// C12/C18: a creation time far in the future must not hang or overflow the calendar conversion.
#[test]
fn c12_creation_time_far_future() {
    let sink = SharedSink::default();
    let mut m = MuxerBuilder::new(sink.clone()).video(VideoCodec::H264, 64, 64, 30.0)
        .with_metadata(Metadata::new().with_creation_time(400_000_000_000_000_000)).build().unwrap();   // year ~1.3e10
    m.write_video(0.0, &h264_key(), true).unwrap();
    let (tx, rx) = std::sync::mpsc::channel();
    std::thread::spawn(move || { let r = catch_unwind(AssertUnwindSafe(|| m.finish_in_place().is_ok())); let _ = tx.send(r.is_ok()); });
    match rx.recv_timeout(std::time::Duration::from_secs(20)) {
        Ok(no_panic) => assert!(no_panic, "finish panicked"),
        Err(_) => panic!("finish did not return within 20 s"),
    }
}
/// C09: audio submitted as starting 0.5 s after the video must not play earlier.
#[test]
fn c09_audio_starting_later_than_video() {
    let sink = SharedSink::default();
    let mut m = MuxerBuilder::new(sink.clone()).video(VideoCodec::H264, 64, 64, 30.0).audio(AudioCodec::Aac(AacProfile::Lc), 44100, 2).build().unwrap();
    m.write_video(0.0, &h264_key(), true).unwrap();
    m.write_video(1.0, &h264_delta(1), false).unwrap();
    m.write_audio(0.5, &adts(&[1, 2, 3])).unwrap();
    m.write_audio(0.6, &adts(&[4, 5, 6])).unwrap();
    m.finish().unwrap();
    let f = sink.bytes();
    let mv = mp4read::parse(&f).unwrap();
    // presentation time of audio sample 0 relative to video sample 0 (no edit list => both start at media time 0)
    let a = &mv.tracks[1];
    assert!(a.has_edts, "audio track starts at media time 0 without an edit list: first audio sample plays 0.5 s early");
}
