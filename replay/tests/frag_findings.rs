//! Witnesses for the OPEN findings of the fragmented muxer (C16, C19, C07, C11). Each test states what the property demands
//! and FAILS on the current tree; they are listed in /verif/known_findings.json.
use muxide::api::{MuxerBuilder, VideoCodec};
use muxide::codec::vp9::Vp9Config;
use muxide::fragmented::{FragmentConfig, FragmentedMuxer};
use muxide_replay::mp4read::{be16, be32, boxes, children, one, BoxRef};

fn find_path<'a>(d: &'a [u8], path: &[&[u8; 4]]) -> BoxRef {
    let mut level = boxes(d, 0, d.len()).unwrap();
    let mut cur: Option<BoxRef> = None;
    for (i, t) in path.iter().enumerate() {
        let b = one(&level, t).unwrap().clone();
        if i + 1 < path.len() {
            let skip = match &b.typ { b"stsd" => 8, b"avc1" | b"hvc1" | b"av01" | b"vp09" => 78, _ => 0 };
            level = children(d, &b, skip).unwrap();
        }
        cur = Some(b);
    }
    cur.unwrap()
}
const STSD: [&[u8; 4]; 6] = [b"moov", b"trak", b"mdia", b"minf", b"stbl", b"stsd"];
fn entry(d: &[u8], fourcc: &[u8; 4]) -> BoxRef { let mut p = STSD.to_vec(); p.push(fourcc); find_path(d, &p) }
fn cfg_box(d: &[u8], fourcc: &[u8; 4], cfg: &[u8; 4]) -> BoxRef { let mut p = STSD.to_vec(); p.push(fourcc); p.push(cfg); find_path(d, &p) }
const D: &[u8] = &[0, 0, 0, 1, 0x65];

#[test]
fn c16_frag_trun_composition_offset_truncated() {
    let mut m = FragmentedMuxer::new(FragmentConfig::default());
    m.write_video(1u64 << 31, 0, D, true).unwrap();
    let seg = m.flush_segment().unwrap();
    let trun = find_path(&seg, &[b"moof", b"traf", b"trun"]);
    let cts = be32(trun.payload(&seg), 12 + 12) as i32 as i64;
    assert_eq!(cts, 1i64 << 31, "composition offset field {}", cts);
}
#[test]
fn c16_frag_tkhd_dimensions_truncated() {
    let mut cfg = FragmentConfig::default();
    cfg.width = 66176; cfg.height = 70000;
    let init = FragmentedMuxer::new(cfg).init_segment();
    let tkhd = find_path(&init, &[b"moov", b"trak", b"tkhd"]);
    let p = tkhd.payload(&init);
    assert_eq!((be32(p, 76) as u64, be32(p, 80) as u64), (66176u64 << 16, 70000u64 << 16));
}
#[test]
fn c16_frag_sample_entry_dimensions_truncated() {
    let mut cfg = FragmentConfig::default();
    cfg.width = 66176; cfg.height = 70000;
    let init = FragmentedMuxer::new(cfg).init_segment();
    let e = entry(&init, b"avc1");
    let p = e.payload(&init);
    assert_eq!((be16(p, 24) as u32, be16(p, 26) as u32), (66176, 70000));
}
#[test]
fn c16_frag_avcc_parameter_set_length_truncated() {
    let mut cfg = FragmentConfig::default();
    cfg.sps = vec![0x67; 65541];
    let init = FragmentedMuxer::new(cfg).init_segment();
    let b = cfg_box(&init, b"avc1", b"avcC");
    assert_eq!(be16(b.payload(&init), 6) as usize, 65541);
}
#[test]
fn c16_frag_hvcc_parameter_set_length_truncated() {
    let mut cfg = FragmentConfig::default();
    cfg.vps = Some(vec![0x40; 65541]);
    let init = FragmentedMuxer::new(cfg).init_segment();
    let b = cfg_box(&init, b"hvc1", b"hvcC");
    // 23 fixed bytes, then array header (1) + numNalus (2) + nalUnitLength (2)
    assert_eq!(be16(b.payload(&init), 23 + 3) as usize, 65541);
}
/// ISO/IEC 14496-15 8.3.3.1.2: reserved bits '1111' before min_spatial_segmentation_idc, '111111' before parallelismType, chromaFormat, bit depths.
#[test]
fn c19_frag_hvcc_reserved_bits_and_profile() {
    let mut cfg = FragmentConfig::default();
    cfg.vps = Some(vec![0x40, 1, 0x0c, 1]);
    cfg.sps = vec![0x42, 1, 1, 0x21, 0x60, 0, 0, 0, 0x90, 0, 0, 0, 0, 0, 0x5d, 0xa0];
    cfg.pps = vec![0x44, 1, 0xc0];
    let init = FragmentedMuxer::new(cfg).init_segment();
    let b = cfg_box(&init, b"hvc1", b"hvcC");
    let p = b.payload(&init);
    assert_eq!((p[13] & 0xf0, p[15] & 0xfc, p[16] & 0xfc, p[17] & 0xf8, p[18] & 0xf8), (0xf0, 0xfc, 0xfc, 0xf8, 0xf8), "reserved bits");
    assert_eq!(p[1], 0x21, "general_profile_space/tier/profile_idc not taken from the SPS");
}
/// AV1-ISOBMFF 2.3.3: av1C = marker(1) version(7) = 0x81, seq_profile(3) seq_level_idx_0(5), flags byte, delay byte, then configOBUs.
#[test]
fn c19_frag_av1c_header() {
    let seq = vec![0x0a, 0x0b, 0, 0, 0, 0x42, 0xab, 0xbf, 0xc3, 0x70, 0x8b, 0, 0];
    let mut m = MuxerBuilder::new(Vec::<u8>::new()).video(VideoCodec::Av1, 64, 64, 30.0).with_av1_sequence_header(seq.clone()).new_with_fragment().unwrap();
    let init = m.init_segment();
    let b = cfg_box(&init, b"av01", b"av1C");
    let p = b.payload(&init);
    assert_eq!(p[0], 0x81, "marker/version byte");
    assert_eq!(&p[4..], &seq[..], "configOBUs must start after the 4 header bytes");
}
/// VP9-ISOBMFF: vpcC is a FullBox (version 1, flags 0) followed by profile, level, bitDepth(4)|chromaSubsampling(3)|fullRange(1), colour bytes, u16 size.
#[test]
fn c19_frag_vpcc_is_a_fullbox() {
    let v = Vp9Config { width: 64, height: 64, profile: 2, bit_depth: 10, color_space: 5, transfer_function: 6, matrix_coefficients: 7, level: 31, full_range_flag: 1 };
    let mut m = MuxerBuilder::new(Vec::<u8>::new()).video(VideoCodec::Vp9, 64, 64, 30.0).with_vp9_config(v).new_with_fragment().unwrap();
    let init = m.init_segment();
    let b = cfg_box(&init, b"vp09", b"vpcC");
    let p = b.payload(&init);
    assert_eq!(b.size, 20, "vpcC box size");
    assert_eq!(be32(p, 0), 0x0100_0000, "version/flags");
}
/// heavy (~9 GiB): a fragment whose media data reaches 4 GiB wraps the 32-bit mdat size; there is no error path.
#[test]
#[ignore]
fn c16_frag_segment_of_4gib_wraps_box_size() {
    let mut m = FragmentedMuxer::new(FragmentConfig::default());
    let big = vec![0u8; 1 << 31];
    m.write_video(0, 0, &big, true).unwrap();
    m.write_video(3000, 3000, &big, false).unwrap();
    let seg = m.flush_segment().unwrap();
    drop(big);
    let top = boxes(&seg, 0, seg.len());
    assert!(top.is_ok(), "segment does not parse as boxes: {:?}", top.err());
}
