//! Witnesses for panics reachable through the public API (C12) and related findings (C04, C06, C19).
use muxide::api::{AacProfile, AudioCodec, MuxerBuilder, VideoCodec};
use muxide_replay::fixtures::*;
use muxide_replay::mp4read;
use std::panic::{catch_unwind, AssertUnwindSafe};

fn h264() -> muxide::api::Muxer<SharedSink> {
    MuxerBuilder::new(SharedSink::default()).video(VideoCodec::H264, 64, 64, 30.0).build().unwrap()
}

/// encode_video(&[]) must report EmptyVideoFrame, not panic (INV-100).
#[test]
fn c12_encode_video_empty_frame() {
    let mut m = h264();
    let r = catch_unwind(AssertUnwindSafe(|| m.encode_video(&[], 33)));
    assert!(matches!(r, Ok(Err(_))), "encode_video(&[]) panicked or succeeded");
}
/// an empty NAL unit between two start codes must not index out of bounds in the keyframe probe.
#[test]
fn c12_encode_video_empty_nal_unit() {
    let mut m = h264();
    let mut d = vec![0, 0, 1, 0, 0, 1];        // two adjacent start codes: one empty unit
    d.extend_from_slice(&h264_key());
    let r = catch_unwind(AssertUnwindSafe(|| m.encode_video(&d, 33)));
    assert!(r.is_ok(), "encode_video panicked on an empty NAL unit");
}
/// is_hevc_keyframe on empty / start-code-free input must return false, not panic (INV-503, INV-505).
#[test]
fn c12_is_hevc_keyframe_degenerate_inputs() {
    assert!(catch_unwind(|| muxide::codec::h265::is_hevc_keyframe(&[])).is_ok(), "panicked on empty input");
    assert!(catch_unwind(|| muxide::codec::h265::is_hevc_keyframe(&[1, 2, 3])).is_ok(), "panicked on input without start code");
}
/// dimensions beyond 16 bits must be rejected when the muxer is built, not panic at finish (INV-002).
#[test]
fn c12_oversized_dimensions() {
    let r = catch_unwind(|| {
        let sink = SharedSink::default();
        match MuxerBuilder::new(sink).video(VideoCodec::H264, 70000, 64, 30.0).build() {
            Err(_) => true,
            Ok(mut m) => { m.write_video(0.0, &h264_key(), true).unwrap(); m.finish_in_place().is_err() }
        }
    });
    assert_eq!(r.ok(), Some(true), "oversized width neither rejected nor reported");
}
/// an ADTS frame whose declared length equals its header length (empty payload) must not make finish panic (INV-004).
#[test]
fn c12_adts_frame_without_payload() {
    let sink = SharedSink::default();
    let mut m = MuxerBuilder::new(sink).video(VideoCodec::H264, 64, 64, 30.0).audio(AudioCodec::Aac(AacProfile::Lc), 44100, 2).build().unwrap();
    m.write_video(0.0, &h264_key(), true).unwrap();
    let accepted = m.write_audio(0.0, &adts(&[])).is_ok();
    let r = catch_unwind(AssertUnwindSafe(|| m.finish_in_place()));
    assert!(r.is_ok(), "finish panicked after an accepted={} empty-payload ADTS frame", accepted);
}
/// C06: the reported duration is the largest presentation end over ALL samples (B-frames: last decoded != last presented).
#[test]
fn c06_stats_duration_with_reordered_video() {
    let mut m = h264();
    let t = 1.0 / 30.0;
    m.write_video_with_dts(0.0, 0.0, &h264_key(), true).unwrap();
    m.write_video_with_dts(3.0 * t, 1.0 * t, &h264_delta(1), false).unwrap();   // P, presented last
    m.write_video_with_dts(1.0 * t, 2.0 * t, &h264_delta(2), false).unwrap();   // B
    m.write_video_with_dts(2.0 * t, 3.0 * t, &h264_delta(3), false).unwrap();   // B
    let s = m.finish_in_place_with_stats().unwrap();
    // P: pts 9000 ticks + duration 3000 => 12000 ticks = 0.1333 s
    assert!((s.duration_secs - 4.0 * t).abs() <= 1.5 / 90000.0, "duration_secs = {}", s.duration_secs);
}
/// C12: presentation time at the top of the tick range must not overflow in the statistics.
#[test]
fn c12_stats_pts_overflow() {
    let mut m = h264();
    m.write_video_with_dts(0.0, 0.0, &h264_key(), true).unwrap();
    m.write_video_with_dts(1e300, 1.0 / 30.0, &h264_delta(1), false).unwrap();
    let r = catch_unwind(AssertUnwindSafe(|| m.finish_in_place_with_stats()));
    assert!(r.is_ok(), "finish_with_stats panicked");
}
/// C19: next_track_ID must exceed every track ID (audio is track 2).
#[test]
fn c19_next_track_id_with_audio() {
    let sink = SharedSink::default();
    let mut m = MuxerBuilder::new(sink.clone()).video(VideoCodec::H264, 64, 64, 30.0).audio(AudioCodec::Aac(AacProfile::Lc), 44100, 2).build().unwrap();
    m.write_video(0.0, &h264_key(), true).unwrap();
    m.write_audio(0.0, &adts(&[1, 2, 3])).unwrap();
    m.finish().unwrap();
    let f = sink.bytes();
    let mv = mp4read::parse(&f).unwrap();
    let next = mp4read::be32(&mv.mvhd, 96);
    let max_id = mv.tracks.iter().map(|t| mp4read::be32(&t.tkhd, 12)).max().unwrap();
    assert!(next > max_id, "next_track_ID {} <= track id {}", next, max_id);
}
/// a VP9 frame shorter than the 3-byte frame marker must not panic in the keyframe probe (INV-104); found by Kani harness kb_is_keyframe_av1_vp9.
#[test]
fn c12_encode_video_short_vp9_frame() {
    let mut m = MuxerBuilder::new(SharedSink::default()).video(VideoCodec::Vp9, 64, 64, 30.0).build().unwrap();
    let r = catch_unwind(AssertUnwindSafe(|| m.encode_video(&[1, 2], 33)));
    assert!(matches!(r, Ok(Err(_))), "encode_video panicked on a 2-byte VP9 frame");
}
