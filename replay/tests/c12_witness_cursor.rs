//! W-C12-cursor (heavy, ~9 GiB RAM): A/V file, standard layout, media data within 24 bytes of 4 GiB:
//! the u32 chunk-offset cursor overflows (panic in debug builds, wrapped offsets in release builds).
use muxide::api::{AacProfile, AudioCodec, MuxerBuilder, VideoCodec};
use muxide_replay::fixtures::*;
use std::io::Write;

struct Null(u64);
impl Write for Null {
    fn write(&mut self, b: &[u8]) -> std::io::Result<usize> { self.0 += b.len() as u64; Ok(b.len()) }
    fn flush(&mut self) -> std::io::Result<()> { Ok(()) }
}

#[test]
#[ignore]
fn c12_standard_layout_cursor_overflow() {
    let mut m = MuxerBuilder::new(Null(0)).video(VideoCodec::Vp9, 64, 64, 30.0)
        .audio(AudioCodec::Aac(AacProfile::Lc), 44100, 2).with_fast_start(false).build().unwrap();
    // VP9 keyframe header accepted by the library (frame marker 0x49 0x83 0x42, profile 0, keyframe)
    let mut key = vec![0x49, 0x83, 0x42, 0x00, 0x00, 0x10, 0x10, 0x00, 0x00, 0x00];
    key.resize(1 << 30, 0xaa);
    m.write_video(0.0, &key, true).unwrap();
    let mut big = vec![0x49, 0x83, 0x42, 0x10, 0x00, 0x10, 0x10, 0x00, 0x00, 0x00];
    big.resize(1 << 30, 0xbb);
    m.write_video(1.0, &big, false).unwrap();
    m.write_video(2.0, &big, false).unwrap();
    // total payload must end between 2^32-32 and 2^32-9: last video frame sized accordingly, plus one small audio frame
    let audio = adts(&[1, 2, 3, 4, 5, 6, 7, 8]);           // 8 payload bytes
    let last = (1u64 << 32) - 16 - 3 * (1u64 << 30) - 8;   // payload total = 2^32 - 16  => mdat_size = 2^32 - 8 <= u32::MAX
    let mut tail = vec![0x49, 0x83, 0x42, 0x10, 0x00, 0x10, 0x10, 0x00, 0x00, 0x00];
    tail.resize(last as usize, 0xcc);
    m.write_video(3.0, &tail, false).unwrap();
    m.write_audio(3.5, &audio).unwrap();
    // must not panic; either Ok with correct 32-bit offsets or an error
    let r = std::panic::catch_unwind(std::panic::AssertUnwindSafe(|| m.finish_in_place()));
    assert!(r.is_ok(), "finish panicked (u32 cursor overflow)");
}
