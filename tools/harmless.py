#!/usr/bin/env python3
"""False-alarm evaluation: apply a behaviour-preserving patch (seeded_harmless/<id>/patch.diff) and run EVERY check.
Expected: exit 0 or 2 for every property; exit 1 (VIOLATION) would be a false alarm.
usage: harmless.py run <id>      (uses VERIF_REPO if set, like seeded.py)"""
import json, os, subprocess, sys, time
VERIF = os.path.dirname(os.path.dirname(os.path.abspath(__file__)))
REPO = os.environ.get('VERIF_REPO', '/repo')
PROPS = ['C%02d' % i for i in range(1, 20)]

def sh(cmd, cwd=None):
    p = subprocess.run(cmd, shell=True, cwd=cwd, capture_output=True, text=True)
    return p.returncode, p.stdout + p.stderr

def run(hid):
    d = os.path.join(VERIF, 'seeded_harmless', hid)
    rc, o = sh('git -C %s apply %s/patch.diff' % (REPO, d))
    if rc != 0:
        print(hid, 'PATCH DOES NOT APPLY', o); return
    res = {}
    try:
        for p in PROPS:
            t0 = time.time()
            rc, o = sh('./check %s' % p, VERIF)
            res[p] = {'exit': rc, 'lines': [l[:300] for l in o.split('\n') if l.startswith('VIOLATION') or l.startswith('UNDECIDED')][:4], 'wall_s': round(time.time() - t0, 1)}
    finally:
        sh('git -C %s checkout -- .' % REPO)
    json.dump({'id': hid, 'kind': 'behaviour-preserving edit (false-alarm test)', 'check_results': res}, open(os.path.join(d, 'result.json'), 'w'), indent=1)
    alarms = [p for p, r in res.items() if r['exit'] == 1]
    und = [p for p, r in res.items() if r['exit'] == 2]
    print(hid, 'FALSE ALARMS: %s' % alarms if alarms else 'no alarm', '| undecided:', und)
    for p in alarms:
        print('   ', p, res[p]['lines'][:2])

if __name__ == '__main__':
    run(sys.argv[2])
