"""Static description of the checks: which Kani harnesses / side conditions decide which property, and the prose for
MANIFEST and evidence. A Verus unit takes part in the check of property P iff one of its extracted functions (or a tagged
lemma) carries tag P; that is computed from the templates, not listed here.
"""

COMMON_ASSUMPTIONS = [
    "A1: slices/Vecs have length <= isize::MAX (Rust guarantee), stated as requires at the boundary",
    "usize is 64 bit; machine integers are modelled exactly by Verus (overflow is an obligation)",
    "R2: u16/u32/u64/i16/i32::to_be_bytes modelled by trusted v_be() with the big-endian spec",
    "vstd specifications of Vec/slice/Option/Result/String are trusted; std models added by the units are listed under trusted_items_scan",
    "trusted: Verus 0.2026.09.13 + Z3, Kani 0.68 + CBMC, rustc; the extractor (tools/extract.py) and its rewrite rules R1-R15 as logged per run",
]
A2 = "A2: fewer than 2^24 samples per track and a movie header (moov) below 4 GiB (`a2_fits` / `fits_*` predicates, stated as requires of finish)"
A3 = "A3: a single frame / parameter string is shorter than 2^32 bytes"
A4 = "A4: fewer than 2^32 fragments per FragmentedMuxer"
A5 = "A5: fewer than 2^64 frames per muxer (frame counters)"
SINK = "the sink is environment: std::io::Write::write_all is assumed to append all of the buffer or to fail after a prefix (prelude/sink.vrs); the muxer only ever calls write_all"
FLOAT = "IEEE-754 doubles are uninterpreted in Verus (prelude/f64.vrs); their arithmetic facts are decided on the real API functions by the complete Kani harnesses k_api_ticks_video / k_api_ticks_second_frame (all f64 bit patterns), k_api_ticks_audio and k_ticks_nearest (complete)"
BOUNDED_LEAVES = ("std models: the iterator-adapter chains of SampleTables::from_samples are rewritten to loops by rule R8 (std semantics of "
                  "iter/map/filter_map/collect assumed) and std's slice sort in compute_interleave_schedule is modelled by its documented postcondition "
                  "(sorted permutation; unit sched); BOUNDED Kani harnesses additionally run the UNMODIFIED functions (from_samples 0..3 samples, "
                  "schedule up to 2 video + 2 audio samples)")

SCHED = ['kb_schedule_1v1a', 'kb_schedule_2v1a', 'kb_schedule_1v2a']
SCHED_T = ['kb_schedule_2v2a']
FROMS = ['kb_from_samples_0', 'kb_from_samples_1', 'kb_from_samples_2']
FROMS_T = ['kb_from_samples_3']
KEYF = ['kb_parsers_vp9_opus_small', 'kb_is_keyframe_h264', 'kb_is_keyframe_h265', 'kb_is_keyframe_av1_vp9']
LANG = ['k_lang', 'k_lang_und', 'k_lang_frag', 'kb_lang_any_utf8', 'kb_lang_frag_any_utf8']

PROPS = {
    'C01': {
        'title': 'Every sample in the file resolves to exactly the bytes and key flag submitted',
        'technique': 'Verus contracts on the extracted writer, from_samples, compute_interleave_schedule and finalize_standard / finalize_fast_start (file == layout spec, offsets in schedule order) + lemma from layout to reader resolution; bounded Kani cross-checks of the two functions proved through std models',
        'text': 'Unbounded deductive proof (Verus) on the real text of write_video_sample(_with_dts)/write_audio_sample (one sample per accepted frame with the payload in MP4 framing and the key flag), '
                'of the table boxes (exact bytes of stsz/stco/stsc/stss) and of finalize/finalize_standard/finalize_fast_start: the bytes written are ftyp, mdat (payload in schedule order) and moov '
                'with chunk offsets equal to the absolute position of each sample (layout_ok), from which lemma_layout_resolves derives that every sample of both tracks resolves through its own tables to its payload.',
        'note': BOUNDED_LEAVES + '; ' + A2 + '; ' + A3,
        'kani': FROMS + SCHED, 'kani_thorough': FROMS_T + SCHED_T,
        'assumptions': [A2, A3, BOUNDED_LEAVES, SINK],
    },
    'C02': {
        'title': 'Every emitted byte stream is a well-formed ISO-BMFF tree with mandatory boxes',
        'technique': 'Verus: every box builder proved equal to a specification built with mk_box from the standards; tiling lemmas over the specifications; file/segment output specs',
        'text': 'Each of the ~80 box builders (progressive and fragmented), extracted from /repo, is proved to return exactly mk_box(type, children...) as prescribed; tiling lemmas show that init segment, media segment and moov '
                'are trees of boxes whose sizes tile their parents with the mandatory children and consistent entry counts; finalize proves the top-level order ftyp, mdat?, moov.',
        'note': A2 + '; box sizes above 4 GiB are outside the claim except where listed as findings',
        'kani': ['kb_finalize_tiling'], 'assumptions': [A2],
    },
    'C03': {
        'title': 'Decode and composition timing in the file equals the submitted timestamps',
        'technique': 'Verus: writer representation invariant (exact DTS distances), stts/ctts run-length round trip, mdhd duration = sum; Kani (complete, all f64 bit patterns) for the tick conversion on the real Muxer::write_video(_with_dts)',
        'text': 'The writer invariant track_wf (every sample but the last carries the exact distance to its successor, computed from absolute ticks) is proved for all call histories; the stts/ctts builders are proved to be '
                'the maximal run-length encoding whose expansion is the duration list; the public calls are proved to hand ticks(pts)/ticks(dts) unchanged to the writer.',
        'note': FLOAT + '; ' + BOUNDED_LEAVES,
        'kani': FROMS + ['kb_total_duration', 'kb_total_duration_fits', 'k_api_ticks_video', 'k_api_ticks_second_frame', 'k_api_ticks_audio'], 'kani_thorough': FROMS_T + ['k_ticks_nearest'],
        'assumptions': [FLOAT, BOUNDED_LEAVES],
    },
    'C04': {
        'title': 'Calls succeed iff the documented input contract holds; errors name the violation',
        'technique': 'Verus: `r is Ok <==> accept(old(self), args)` and error-variant naming on every public write/finish/build entry point, over the representation invariants',
        'text': 'For write_video, write_video_with_dts, write_audio, encode_video, encode_audio, finish*, build (and the writer-level and fragmented equivalents) the extracted real functions are proved to succeed exactly '
                'when the accept predicate transcribed from the property statement holds in the current abstract state, and each error variant is proved to name a conjunct that this call violated; payload validators '
                '(ADTS, Opus, parameter-set extraction) are proved against their specifications.',
        'note': FLOAT + '; ' + A3 + '; ' + A5,
        'kani': ['kb_is_keyframe_h264', 'kb_is_keyframe_h265', 'k_api_audio_gate'], 'assumptions': [FLOAT, A3, A5],
    },
    'C05': {
        'title': 'Rejected calls leave no trace',
        'technique': 'Verus: `r is Err ==> *final(self) == *old(self)` (whole-struct equality) on every frame-writing entry point',
        'text': 'Whole-state equality on every error exit of Mp4Writer::write_video_sample(_with_dts)/write_audio_sample, Muxer::write_video/write_video_with_dts/write_audio/encode_* and FragmentedMuxer::write_video, '
                'proved on the extracted real text; every later decision, statistic and output byte is a function of that state.',
        'note': A3,
        'kani': [], 'kani_thorough': ['k_api_ticks_video', 'k_api_ticks_second_frame'], 'assumptions': [A3],
    },
    'C06': {
        'title': 'Finalisation happens exactly once and accounts for every byte and frame',
        'technique': 'Verus: finish-once flags, frame conditions (sink untouched by writes), byte accounting through write_counted, statistics contracts',
        'text': 'Write calls are proved not to touch the sink; finalize sets the flag before the first write and refuses re-entry; bytes_written is proved to equal the number of bytes the sink accepted; '
                'the statistics equal the queue lengths and the largest presentation end over all samples (max_end_pts contract).',
        'note': SINK + '; ' + A2 + '; seconds = ticks/90000 is one IEEE division of the exact tick count (the contract pins the operands; nothing further is claimed about IEEE division)',
        'kani': [], 'assumptions': [SINK, A2, FLOAT],
    },
    'C07': {
        'title': 'The codec configuration in the file is exactly that of the submitted stream',
        'technique': 'Verus: parameter-set extraction == first units of the Annex B unit list; AV1 header fields == transcription of AV1 5.5; config records carry the bytes; Kani for the AudioSpecificConfig table',
        'text': 'extract_avc_config / extract_hevc_config are proved to return the first SPS/PPS (VPS) of the unit list for all byte strings; extract_av1_config returns the bytes of the first sequence-header OBU and fields equal '
                'to the standard\'s syntax (except the recorded monochrome finding); the sample entries and configuration records are proved byte-for-byte; builder-supplied parameter sets are moved unchanged.',
        'note': 'VP9: the accepted form is the library\'s own documented header layout (no external standard claim); ' + A3,
        'kani': ['k_asc'], 'assumptions': [A3],
    },
    'C08': {
        'title': 'Fast-start changes only the layout; both layouts address samples correctly',
        'technique': 'Verus: both finalize functions proved against the same layout specification with the flag as parameter; moov length independent of offset values',
        'text': 'finalize_standard and finalize_fast_start are proved against layout_ok(.., fast) with identical table predicates (tables_are) and sample positions relative to the media data; the two-pass measurement is justified by '
                'lemma_moov_len_indep (moov length depends on the tables only through their shape); the flag is plumbed unchanged from the builder.',
        'note': BOUNDED_LEAVES + '; ' + A2,
        'kani': FROMS + SCHED, 'kani_thorough': FROMS_T + SCHED_T, 'assumptions': [A2, BOUNDED_LEAVES],
    },
    'C09': {
        'title': 'Audio/video synchronisation of the input is preserved',
        'technique': 'Verus: audio durations are exact PTS distances and tracks carry no edit list; the residual obligation (first audio PTS == first video PTS) is undischargeable and recorded as a finding',
        'text': 'The writer contract proves that audio sample durations are the exact distances of the submitted timestamps, so audio sample j decodes at pts_j - pts_0; the trak builders emit [tkhd, mdia] only. '
                'Synchronisation therefore reduces to one obligation that no guard establishes; it is kept as a named failing lemma (known finding) so that any other C09 regression is still reported.',
        'note': 'decidable only up to the recorded finding',
        'kani': ['k_api_ticks_audio', 'k_api_audio_gate'], 'assumptions': [],
    },
    'C10': {
        'title': 'Fragmented muxing conserves samples across any write/flush interleaving',
        'technique': 'Verus: representation invariant of FragmentedMuxer + per-operation contracts (induction over all interleavings) + location lemma over the segment specification',
        'text': 'wf() is established by new and preserved by every method; write_video appends exactly the submitted sample or changes nothing; flush_segment returns exactly spec_media_segment(queue, seq, first DTS) and empties the queue; '
                'the location lemma proves that each sample is found at data_offset + preceding sizes.',
        'note': A4 + '; A2 for the init segment; fragments of 4 GiB or more are a recorded finding',
        'kani': ['kb_frag_accept', 'kb_frag_flush_ref', 'kb_media_segment_one'], 'assumptions': [A4, A2],
    },
    'C11': {
        'title': 'Fragmented segments carry a consistent timeline and a stable init segment',
        'technique': 'Verus: trun/tfdt field contracts, tfdt == first DTS of the segment, cached init segment == spec of the immutable config',
        'text': 'build_trun/build_tfdt are proved field by field; flush_segment is proved to write the first queued DTS as base decode time, from which the cross-segment statements follow by lemma; init_segment is proved equal to a '
                'specification of the configuration whether cached or not.',
        'note': 'duration / composition-offset exactness beyond 32 bits are recorded findings', 'kani': ['kb_frag_flush_ref', 'kb_media_segment_one'], 'assumptions': [A4],
    },
    'C12': {
        'title': 'No public entry point panics, overflows or hangs on any input',
        'technique': 'Verus built-in obligations (overflow, bounds, unwrap, termination) on every extracted function; assert_invariant! turned into proof obligations (R4); Kani bounded for what Verus cannot read',
        'text': 'Every function under contract in every unit is verified with Verus\' arithmetic, index, division, precondition and termination obligations for all argument values and all reachable object states '
                '(public functions carry no precondition beyond A1-A5 and the representation invariants that constructors establish).',
        'note': 'functions not under contract are listed in DESIGN.md section 9; ' + A2 + '; ' + A3 + '; ' + A4 + '; ' + A5,
        'kani': KEYF + FROMS + SCHED + ['kb_total_duration'] + LANG, 'kani_thorough': FROMS_T + SCHED_T,
        'assumptions': [A2, A3, A4, A5],
    },
    'C13': {
        'title': 'Sink failures and partial writes never corrupt, duplicate or hide data',
        'technique': 'Verus: sink protocol (requires !failed at all 17 write sites), accepted bytes only ever extended, failed write always reported, finalized flag set first',
        'text': 'With the assumed contract of write_all, every call site in finalize_* is proved to be reached only while no write has failed, the accepted bytes are proved to be an extension of the previous ones at every exit, '
                'a failed sink implies an error result, and a second finish is proved to write nothing.',
        'note': SINK,
        'kani': ['kb_write_counted_retries'], 'assumptions': [SINK],
    },
    'C14': {
        'title': 'Re-framing (Annex B to length-prefixed NALs, ADTS to raw AAC) is exact',
        'technique': 'Verus contracts on the extracted real functions: annexb_to_avcc(d) == avcc_spec(d) for all byte strings; adts_to_raw == header/length slice',
        'text': 'Unbounded deductive proof (Verus/Z3) that the real find_start_code, AnnexBNalIter::next, annexb_to_avcc and hevc_annexb_to_hvcc return exactly the length-prefixed image of the unit list defined from the '
                'statement of C14, and that adts_to_raw accepts exactly the structurally valid frames and returns the slice between header and declared frame length.',
        'note': A3 + '; to_be_bytes trusted (R2); for-loops over the user iterator desugared by R6; ADTS diagnostics dropped by R9',
        'kani': [], 'assumptions': [A3],
    },
    'C15': {
        'title': 'Audio and video samples are interleaved in timestamp order in the media data',
        'technique': 'Verus: schedule == the key-sorted rearrangement of both queues (unit sched: permutation, per-track order, merge by timestamp; std sort modelled by its documented postcondition) and storage order == schedule order in both layouts (unit layout); bounded Kani cross-check of the unmodified schedule function',
        'text': 'Both finalize functions are proved to store the j-th schedule entry directly after the j earlier ones and to assign its offset accordingly, using the same functional schedule in every pass; '
                'the ordering clause of the schedule itself (sort_by_key) is outside Verus and is checked bounded.',
        'note': BOUNDED_LEAVES,
        'kani': SCHED + ['k_api_ticks_audio'], 'kani_thorough': SCHED_T, 'assumptions': [BOUNDED_LEAVES],
    },
    'C16': {
        'title': 'No numeric field is silently truncated; declared durations match the tables',
        'technique': 'Verus: value-level postconditions dec(field) == mathematical value on every fixed-width field; fit conditions must be discharged by real guards',
        'text': 'Every fixed-width numeric field of every builder has a clause stating its mathematical value; Verus leaves narrowing casts unspecified outside the target range, so each clause is provable only where a guard dominates the cast. '
                'The guards of finalize (mdat size, chunk offsets) and of the writer (32-bit sample deltas) are proved sufficient.',
        'note': 'fields without a guard are recorded findings (one obligation each)',
        'kani': FROMS + ['kb_total_duration_fits'], 'kani_thorough': FROMS_T, 'assumptions': [A2],
    },
    'C17': {
        'title': 'Output is a pure function of the call sequence; equivalent API paths agree',
        'technique': 'functional contracts (results are spec functions of arguments and old state), delegation/alias contracts in Verus and Kani, Send/Sync by the trait solver, deny-list scan for ambient state',
        'text': 'Every function on the muxing path is verified against, or assumed with, a contract whose result is a function of its arguments and old(self); alias pairs and finish variants are proved equal; '
                'Muxer<W>: Send/Sync follows for all W from the trait solver. Thread schedules are not modelled: independence of threads is claimed only via the side condition "no ambient mutable state", which is a mechanical scan.',
        'note': 'reduced claim: threads are not modelled by either verifier (DESIGN.md section 6 C17)',
        'kani': ['k_aliases', 'k_build_audio_none', 'k_build_audio_opus', 'k_send_sync', 'kb_is_keyframe_h264'], 'assumptions': [],
        'scan': True,
    },
    'C18': {
        'title': 'Title, creation date and language are stored faithfully and touch nothing else',
        'technique': 'Verus: udta/ilst builders against the specification, calendar conversion against the civil-date function, language packing by complete Kani enumeration',
        'text': 'build_udta_box / build_ilst_string_item are proved to emit exactly the name and date items with the UTF-8 bytes, or nothing; days_to_ymd is proved to invert days_from_civil up to year 9999; '
                'the 26^3 language codes round-trip through the packer (both copies); metadata is proved to influence only the language fields and the udta child.',
        'note': 'format! rendering ({:04}/{:02}) and str::as_bytes are assumed std semantics (R10)',
        'kani': LANG + ['kb_days_to_ymd', 'k_metadata_setters'], 'assumptions': ['std formatting of {:04}/{:02} integers and str::as_bytes == UTF-8 bytes are assumed'],
    },
    'C19': {
        'title': 'Header boxes and configuration records follow their specifications\' layouts',
        'technique': 'Verus: one contract per fixed-layout builder with size, version/flags and dec(field) clauses taken from ISO/IEC 14496-12/-14/-15 and the AV1/VP9/Opus bindings',
        'text': 'Each header box and configuration record builder (progressive and fragmented) is proved against the field table of its defining specification for all arguments; deviations of the code are single named failing obligations '
                '(known findings), with the remaining fields still pinned relative to the finding.',
        'note': 'oracle = the standards, not the golden file',
        'kani': ['kb_moov_next_track_id'], 'assumptions': [],
    },
}
