"""Static description of the checks: which units / harnesses decide which property.

A Verus unit takes part in the check of property P iff one of its extracted functions
carries tag P (`//@ tags`) -- that is computed from the templates, not listed here.
Listed here: per-property prose for MANIFEST/evidence, assumptions, Kani harnesses.
"""

# assumptions shared by every Verus unit (DESIGN.md section 9)
COMMON_ASSUMPTIONS = [
    "A1: slices/Vecs have length <= isize::MAX (Rust guarantee), stated as requires at the boundary",
    "usize is 64 bit; machine integers are modelled exactly by Verus (overflow is an obligation)",
    "R2: u16/u32/u64/i16/i32::to_be_bytes modelled by trusted v_be() with the big-endian spec",
    "vstd specifications of Vec/slice/Option/Result are trusted",
    "trusted: Verus 0.2026.09.13 + Z3, the extractor (tools/extract.py) and its rewrite rules R1-R12 as logged per run",
]

PROPS = {
    'C14': {
        'title': 'Re-framing (Annex B to length-prefixed NALs, ADTS to raw AAC) is exact',
        'level': 'proof',
        'technique': 'Verus contracts on the extracted real functions: annexb_to_avcc(d) == avcc_spec(d) for all byte strings',
        'text': 'Unbounded deductive proof (Verus/Z3) that the real find_start_code, AnnexBNalIter::next, annexb_to_avcc and hevc_annexb_to_hvcc, '
                'extracted mechanically from /repo on every run, return exactly the length-prefixed image of the unit list defined from the '
                'statement of C14, and that adts_to_raw returns the slice between header and declared frame length.',
        'note': 'A3: inputs shorter than 4 GiB so that `len as u32` is exact; to_be_bytes trusted (R2); for-loops over the user iterator desugared by R6.',
        'design_ref': 'DESIGN.md section 6 C14',
        'assumptions': ["A3: single access units are shorter than 2^32 bytes"],
    },
}
