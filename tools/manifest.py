"""Regenerates /verif/MANIFEST.json from tools/props.py."""
import json
import os

import props

VERIF = os.path.dirname(os.path.dirname(os.path.abspath(__file__)))

NOT_APPLICABLE = {
    'C20': 'CLI process behaviour (exit status, stdout/stderr, files on disk, clap parsing): no function-level contract within reach of '
           'Verus/Kani expresses it; see DESIGN.md section 10',
}
PENDING = 'check not built yet (build in progress, see DESIGN.md section 11)'


def write():
    ids = [json.loads(l)['id'] for l in open(os.path.join(VERIF, 'properties.jsonl'))]
    checks = []
    na = []
    for p in ids:
        c = props.PROPS.get(p)
        if c is None:
            na.append({'property_id': p, 'reason': NOT_APPLICABLE.get(p, PENDING)})
            continue
        checks.append({
            'property_id': p,
            'quick_cmd': './check %s --tier quick' % p,
            'thorough_cmd': './check %s --tier thorough' % p,
            'evidence_file': '/verif/evidence/%s.json' % p,
            'replay_cmd_template': './check replay {path}',
            'engine': 'contracts',
            'level_claimed': {'category': c.get('level', 'proof'), 'text': c['text'], 'design_ref': c.get('design_ref', 'DESIGN.md section 6')},
            'level_note': c['note'],
            'technique': c['technique'],
        })
    m = {
        'version': 1,
        'setup_cmd': './check warm',
        'hooks': {
            'guard': 'michael_a_kuykendall_muxide_verif',
            'enable': 'no hook is compiled into /repo: every check extracts the real function text from /repo/src (working tree) on each run; Kani harnesses are attached to a scratch copy',
            'baseline_off_cmd': 'cd /repo && cargo test --workspace --no-fail-fast --offline',
            'source_commits': [],
            'add_only': True,
        },
        'engines': [{'name': 'contracts', 'path': '/verif/check',
                     'serves_properties': [c['property_id'] for c in checks],
                     'kind_free_text': 'contract-based deductive verification: Verus on mechanically extracted real functions (tools/extract.py, units/*.vrs); Kani for complete loop-free proofs and bounded stand-ins'}],
        'checks': checks,
        'not_applicable': na,
        'notes': 'exit 0 holds / exit 1 + VIOLATION line / exit 2 undecided (tooling: lost anchor, unsupported construct, rlimit) - never an alarm. Known findings: /verif/known_findings.json.',
    }
    json.dump(m, open(os.path.join(VERIF, 'MANIFEST.json'), 'w'), indent=1)


if __name__ == '__main__':
    write()
