#!/usr/bin/env python3
"""Runs the contract checks: extraction -> Verus (cached) -> attribution -> verdict/evidence."""
import hashlib
import json
import os
import re
import subprocess
import sys
import time

HERE = os.path.dirname(os.path.abspath(__file__))
VERIF = os.path.dirname(HERE)
sys.path.insert(0, HERE)
import extract  # noqa: E402

REPO = os.environ.get('VERIF_REPO', '/repo')
BUILD = os.path.join(VERIF, 'build')
CACHE = os.path.join(BUILD, 'cache')
UNITS_DIR = os.path.join(VERIF, 'units')
VERUS_ARGS = ['--triggers-mode', 'silent', '--output-json', '--time-expanded', '--error-format=json',
              '--multiple-errors', '8']

VERIF_FAIL_PATTERNS = [
    (r'^postcondition not satisfied', 'post'),
    (r'^precondition not satisfied', 'pre'),
    (r'^assertion failed', 'assert'),
    (r'^possible arithmetic underflow/overflow', 'arith'),
    (r'^possible division by zero', 'div0'),
    (r'^possible bit shift underflow/overflow', 'shift'),
    (r'^invariant not satisfied', 'inv'),
    (r'^loop invariant not satisfied', 'inv'),
    (r'^decreases not satisfied', 'decr'),
    (r'^could not prove termination', 'decr'),
    (r'^cannot show invariant', 'inv'),
    (r'^unreachable', 'unreach'),
    (r'^recommendation not met', None),     # notes only
    (r'^value may be out of range', 'cast'),
    (r'^constructed value may fail', 'typeinv'),
    (r'^index out of bounds', 'index'),
    (r'^possible (array|slice|vec) index', 'index'),
    (r'^cannot prove.*exhaustive', 'match'),
]
UNDECIDED_PATTERNS = [r'[Rr]esource limit', r'rlimit', r'timed? ?out', r'solver.*(crash|died)']


def sha(s):
    return hashlib.sha256(s.encode()).hexdigest()


def unit_names():
    return sorted(f[:-4] for f in os.listdir(UNITS_DIR) if f.endswith('.vrs'))


def verus_version():
    p = os.path.join(BUILD, 'verus_version.txt')
    if os.path.exists(p):
        return open(p).read().strip()
    os.makedirs(BUILD, exist_ok=True)
    out = subprocess.run(['verus', '--version'], capture_output=True, text=True).stdout
    m = re.search(r'Version:\s*(\S+)', out)
    v = m.group(1) if m else 'unknown'
    open(p, 'w').write(v)
    return v


def build_unit(unit):
    """Extract; returns (rs_path, map) or raises ExtractError."""
    os.makedirs(BUILD, exist_ok=True)
    tpl = os.path.join(UNITS_DIR, unit + '.vrs')
    rs = os.path.join(BUILD, unit + '.rs')
    mp = os.path.join(BUILD, unit + '.map.json')
    extract._item_cache.clear()
    m = extract.build_unit(tpl, REPO, rs, mp)
    return rs, m


def classify(msg):
    for pat, kind in VERIF_FAIL_PATTERNS:
        if re.search(pat, msg):
            return 'verif', kind
    for pat in UNDECIDED_PATTERNS:
        if re.search(pat, msg):
            return 'undecided', None
    return 'tool', None


def run_verus(unit, rlimit=None, use_cache=True, extra_args=None):
    """Returns dict: status ok|fail|tool|undecided, errors[], functions[], times, raw."""
    t0 = time.time()
    try:
        rs, m = build_unit(unit)
    except (extract.ExtractError, extract.rustlex.LexError) as e:
        return {'unit': unit, 'status': 'tool', 'tool_msg': 'EXTRACT: %s' % e, 'errors': [], 'functions': [],
                'map': None, 'wall_s': time.time() - t0, 'cached': False}
    text = open(rs).read()
    args = list(VERUS_ARGS) + (extra_args or [])
    mrl = re.search(r'^// //@@ rlimit (\d+)', text, re.M)
    if mrl and not rlimit:
        rlimit = int(mrl.group(1))
    if rlimit:
        args += ['--rlimit', str(rlimit)]
    key = sha(text + '\n' + verus_version() + '\n' + ' '.join(args))
    os.makedirs(CACHE, exist_ok=True)
    cpath = os.path.join(CACHE, '%s-%s.json' % (unit, key[:32]))
    res = None
    if use_cache and os.path.exists(cpath):
        try:
            res = json.load(open(cpath))
            res['cached'] = True
        except Exception:
            res = None
    if res is None:
        p = subprocess.run(['verus', os.path.basename(rs)] + args, cwd=BUILD, capture_output=True, text=True)
        res = parse_verus(unit, p.stdout, p.stderr, p.returncode)
        res['cached'] = False
        res['verus_wall_s'] = time.time() - t0
        json.dump(res, open(cpath, 'w'))
    res['map'] = m
    res['rs'] = rs
    res['src_lines'] = text.split('\n')
    res['wall_s'] = time.time() - t0
    attribute(res)
    return res


def parse_verus(unit, stdout, stderr, rc):
    res = {'unit': unit, 'rc': rc, 'errors': [], 'tool_msgs': [], 'undecided': [], 'functions': [],
           'verified': 0, 'n_errors': 0, 'smt_ms': 0, 'total_ms': 0}
    try:
        j = json.loads(stdout) if stdout.strip() else {}
    except Exception:
        j = {}
    vr = j.get('verification-results', {})
    res['verified'] = vr.get('verified', 0)
    res['n_errors'] = vr.get('errors', 0)
    res['vir_error'] = vr.get('encountered-vir-error', False)
    tm = j.get('times-ms', {})
    res['total_ms'] = tm.get('total', 0)
    smt = tm.get('smt', {})
    res['smt_ms'] = smt.get('total', 0)
    for mod in smt.get('smt-run-module-times', []):
        for f in mod.get('function-breakdown', []):
            res['functions'].append({'function': f.get('function'), 'mode': f.get('mode:', f.get('mode')),
                                     'ms': f.get('time', 0), 'rlimit': f.get('rlimit', 0), 'success': f.get('success')})
    for line in stderr.split('\n'):
        line = line.strip()
        if not line.startswith('{'):
            if line and not line.startswith('note:') and 'warning' not in line:
                pass
            continue
        try:
            d = json.loads(line)
        except Exception:
            continue
        if d.get('level') != 'error':
            continue
        msg = d.get('message', '')
        if msg.startswith('aborting due to'):
            continue
        cls, kind = classify(msg)
        spans = [{'line_start': s['line_start'], 'line_end': s['line_end'], 'primary': s['is_primary'],
                  'label': s.get('label') or '', 'text': ' '.join(t['text'].strip() for t in s.get('text', [])),
                  'hl': ' '.join(t['text'][t['highlight_start'] - 1:t['highlight_end'] - 1] for t in s.get('text', [])),
                  'file': s.get('file_name', '')}
                 for s in d.get('spans', [])]
        rec = {'message': msg, 'kind': kind, 'spans': spans, 'rendered': d.get('rendered', '')}
        if d.get('code'):
            cls = 'tool'
        if cls == 'verif' and kind:
            res['errors'].append(rec)
        elif cls == 'undecided':
            res['undecided'].append(rec)
        else:
            res['tool_msgs'].append(rec)
    if res['tool_msgs'] or (not vr and rc != 0):
        res['status'] = 'tool'
        if not res['tool_msgs']:
            res['tool_msgs'].append({'message': 'verus produced no result: ' + stderr[-2000:], 'spans': [], 'rendered': stderr[-2000:]})
    elif res['undecided']:
        res['status'] = 'undecided'
    elif res['errors'] or res['n_errors']:
        res['status'] = 'fail'
    elif not vr or not vr.get('success') or 'panicked at' in stderr:
        res['status'] = 'tool'
        res['tool_msgs'].append({'message': 'verus did not report success: ' + stderr[-1500:], 'spans': [], 'rendered': stderr[-1500:]})
    else:
        res['status'] = 'ok'
    return res


TAG_RE = re.compile(r'\[(C\d{2,3}(?:\s*,\s*C\d{2,3})*)\]')


def func_at(m, line):
    for f in m['functions']:
        if f['out_first'] <= line <= f['out_last']:
            return f
    return None


def clause_text(lines, ls, le):
    return extract.norm_ws(re.sub(r'//[^\n]*', '', '\n'.join(lines[ls - 1:le])))


def attribute(res):
    """Give each verification error: function, obligation id, property tags."""
    m = res.get('map')
    if not m:
        return
    lines = res['src_lines']
    for e in res['errors']:
        local = os.path.basename(res.get('rs', ''))
        for s_ in e['spans']:
            if s_['file'] != local:
                s_['file'] = '/' + s_['file'].lstrip('/')
        spans = [s for s in e['spans'] if s['file'] == local]
        if not spans:
            spans = e['spans']
        prim = next((s for s in spans if s['primary']), spans[0] if spans else None)
        kind = e['kind']
        clause = None
        site = None
        if kind == 'post':
            clause = prim      # failed ensures clause
            site = next((s for s in spans if not s['primary']), None)
        elif kind == 'pre':
            site = prim        # call site
            clause = next((s for s in spans if not s['primary']), None)
        else:
            clause = prim
            site = prim
        # function: where the obligation arises (call site / return point / assertion)
        fl = (site or clause)['line_start'] if (site or clause) else 0
        f = func_at(m, fl) or (func_at(m, clause['line_start']) if clause else None)
        fname = f['name'] if f else '<prelude>'
        ptags = set()
        if not f and fl:
            # lemma / spec function written in the template: name it and read `[Cxx]` tags from its header or doc comment
            for ln in range(fl, max(fl - 400, 0), -1):
                mm = re.match(r'\s*(?:pub\s+)?(?:broadcast\s+)?(?:open\s+|closed\s+)?(?:(?:proof|spec|exec)\s+)?fn\s+(\w+)', lines[ln - 1])
                if mm:
                    fname = mm.group(1)
                    for q in (ln - 1, ln - 2):
                        if 0 <= q < len(lines):
                            for tm in TAG_RE.finditer(lines[q]):
                                ptags.update(x.strip() for x in tm.group(1).split(','))
                    break
        ctext = ''
        tags = set()
        if clause and not clause['file'].startswith('/'):
            ctext = clause['hl'].strip() or clause_text(lines, clause['line_start'], clause['line_end'])
            ctext = extract.norm_ws(re.sub(r'//.*$', '', ctext))
            if ctext == 'v_inv':
                full = clause_text(lines, clause['line_start'], clause['line_end'])
                mm = re.search(r'let v_inv: bool = (.*); assert\(v_inv\)', full)
                ctext = 'INV ' + (mm.group(1) if mm else full)
            for ln in range(clause['line_start'], clause['line_end'] + 1):
                if 1 <= ln <= len(lines):
                    for mm in TAG_RE.finditer(lines[ln - 1]):
                        tags.update(x.strip() for x in mm.group(1).split(','))
        elif clause:
            ctext = 'vstd:' + extract.norm_ws(clause['hl'] or clause['text'])[:80]
        stext = ''
        if site is not None and site is not clause:
            stext = extract.norm_ws(re.sub(r'//.*$', '', site['hl'] or site['text']))
        if kind in ('arith', 'div0', 'shift', 'index', 'decr', 'cast', 'unreach', 'match'):
            tags = {'C12'}        # built-in safety / termination obligations: panic freedom
        elif kind == 'pre' and clause and clause['file'].startswith('/'):
            # precondition of a std/vstd function (index, unwrap, slice range ...): panic freedom
            tags = {'C12'}
        elif kind == 'assert' and ctext.startswith('INV '):
            tags.add('C12')      # R4: always-on assert_invariant! panics iff the condition is false
        elif not tags and f:
            tags.update(f['tags'])
        if not tags and ptags:
            tags.update(ptags)
        oid = '%s::%s::%s::%s' % (res['unit'], fname, kind, ctext if kind != 'pre' else (stext + ' => ' + ctext))
        e['function'] = fname
        e['file'] = f['file'] if f else ''
        e['obligation'] = oid
        e['tags'] = sorted(tags)
        e['origin_line'] = fl
        # the function lost part of its proof overlay (extract.py degraded mode). A failure there is reported only when it cannot be an
        # artefact of the lost overlay: the function is now loop-free (no invariant can be missing) AND nothing but loop directives /
        # loop-rewrite rules was dropped (no ghost hint, closure contract, float wrapper or call redirection is missing). Otherwise the
        # obligation is undecided. (A first version also decided loop-free functions that had lost a ghost hint; the harmless edit H7 -
        # a dropped bit-vector hint - showed that this raises false alarms.)
        e['undecided_shape'] = bool(f and f.get('degraded') and (f.get('has_loops') or f.get('degraded_hint_lost')))
        e['degraded'] = (f.get('degraded') if f else None)


def scan_assumptions(res):
    """Mechanical scan of the generated file for trusted items."""
    found = []
    lines = res.get('src_lines', [])
    for i, l in enumerate(lines):
        if 'imported-lemma' in l:
            continue
        if re.search(r'external_body|assume_specification|\badmit\s*\(|\bassume\s*\(|external_fn_specification|#\[verifier::external\b|axiom', l):
            # find the next fn name
            name = ''
            for k in range(i, min(i + 6, len(lines))):
                mm = re.search(r'\bfn\s+(\w+)', lines[k])
                if mm:
                    name = mm.group(1)
                    break
            found.append('%s:%d %s %s' % (os.path.basename(res['rs']), i + 1, extract.norm_ws(l)[:60], name))
    return found
