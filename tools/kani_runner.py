#!/usr/bin/env python3
"""Runs Kani harnesses on a scratch copy of /repo (no hook is committed to the repository).

The harness files under /verif/kani/ are attached as `#[cfg(kani)] #[path = ..] mod verif_kani;` to the modules whose
private items they need. Results are cached by the hash of (repo sources, harness files, tool version).
"""
import concurrent.futures as cf
import hashlib
import json
import os
import re
import shutil
import subprocess
import sys
import time

HERE = os.path.dirname(os.path.abspath(__file__))
VERIF = os.path.dirname(HERE)
REPO = os.environ.get('VERIF_REPO', '/repo')
BUILD = os.path.join(VERIF, 'build')
CACHE = os.path.join(BUILD, 'kani_cache')
KANI_DIR = os.path.join(VERIF, 'kani')

ATTACH = [  # (source file, harness file)
    ('src/muxer/mp4.rs', 'mp4_harness.rs'),
    ('src/api.rs', 'api_harness.rs'),
    ('src/fragmented.rs', 'frag_harness.rs'),
]

# harness -> description (kind: complete | bounded, bound text, timeout seconds, tier)
HARNESSES = {
    'k_asc': {'kind': 'complete', 'domain': 'all u32 sample rates x all u16 channel counts', 'timeout': 300, 'tier': 'quick'},
    'k_lang': {'kind': 'complete', 'domain': 'all 26^3 lower-case three-letter codes (progressive mdhd packer)', 'timeout': 300, 'tier': 'quick'},
    'k_lang_und': {'kind': 'complete', 'domain': 'the constant "und"', 'timeout': 300, 'tier': 'quick'},
    'k_lang_frag': {'kind': 'complete', 'domain': 'all 26^3 lower-case three-letter codes + "und" (fragmented mdhd packer)', 'timeout': 300, 'tier': 'quick'},
    'kb_lang_any_utf8': {'kind': 'bounded', 'domain': 'every valid UTF-8 string of at most 5 bytes (progressive packer)', 'timeout': 900, 'tier': 'quick'},
    'kb_lang_frag_any_utf8': {'kind': 'bounded', 'domain': 'every valid UTF-8 string of at most 5 bytes (fragmented packer)', 'timeout': 900, 'tier': 'quick'},
    'k_send_sync': {'kind': 'complete', 'domain': 'all W: Write + Send / Sync (rustc trait solver)', 'timeout': 300, 'tier': 'quick'},
    'k_aliases': {'kind': 'complete', 'domain': 'all arguments of the builder alias pairs', 'timeout': 300, 'tier': 'quick'},
    'k_metadata_setters': {'kind': 'complete', 'domain': 'all u64 creation times (fixed title / language strings): MuxerBuilder::set_create_time / set_language after with_metadata', 'timeout': 900, 'tier': 'quick'},
    'k_build_audio_none': {'kind': 'complete', 'domain': 'all u32 sample rates and u16 channel counts: MuxerBuilder::build with audio codec None', 'timeout': 900, 'tier': 'quick'},
    'k_build_audio_opus': {'kind': 'complete', 'domain': 'all u32 sample rates and u16 channel counts: MuxerBuilder::build with Opus', 'timeout': 900, 'tier': 'quick'},
    'k_api_ticks_video': {'kind': 'complete', 'domain': 'all f64 bit patterns for pts and dts of the first frame, real Muxer::write_video_with_dts (VP9 keyframe)', 'timeout': 1800, 'tier': 'quick'},
    'k_api_ticks_second_frame': {'kind': 'complete', 'domain': 'all f64 bit patterns for the second frame time, real Muxer::write_video', 'timeout': 1800, 'tier': 'quick'},
    'k_api_ticks_audio': {'kind': 'complete', 'domain': 'all f64 bit patterns for the first video time and the first audio time, real Muxer::write_video + write_audio (VP9 + Opus)', 'timeout': 2400, 'tier': 'quick'},
    'k_api_audio_gate': {'kind': 'complete', 'domain': 'all f64 bit patterns for the first and second video presentation times and the audio time (VP9 + Opus, write_video_with_dts / write_audio)', 'timeout': 2400, 'tier': 'quick'},
    'k_ticks_nearest': {'kind': 'complete', 'domain': 'all finite f64 seconds x >= 0 with x*90000 < 2^53', 'timeout': 900, 'tier': 'thorough'},
    'kb_total_duration': {'kind': 'bounded', 'domain': 'up to 4 durations, all u32 values', 'timeout': 300, 'tier': 'quick'},
    'kb_total_duration_fits': {'kind': 'bounded', 'domain': 'up to 3 samples, all u32 / absent durations, all u64 timestamps', 'timeout': 600, 'tier': 'quick'},
    'kb_from_samples_0': {'kind': 'bounded', 'domain': '0 samples', 'timeout': 300, 'tier': 'quick'},
    'kb_from_samples_1': {'kind': 'bounded', 'domain': '1 sample, payload 1..2 bytes, all u64 pts/dts, all flags/durations/fallback', 'timeout': 300, 'tier': 'quick'},
    'kb_from_samples_2': {'kind': 'bounded', 'domain': '2 samples, payload 1..2 bytes, all u64 pts/dts, all flags/durations/fallback', 'timeout': 600, 'tier': 'quick'},
    'kb_from_samples_3': {'kind': 'bounded', 'domain': '3 samples, payload 1..2 bytes, all u64 pts/dts, all flags/durations/fallback', 'timeout': 1800, 'tier': 'thorough'},
    'kb_schedule_1v1a': {'kind': 'bounded', 'domain': '1 video + 1 audio sample, all u64 timestamps under the writer invariant', 'timeout': 300, 'tier': 'quick'},
    'kb_schedule_2v1a': {'kind': 'bounded', 'domain': '2 video + 1 audio samples', 'timeout': 600, 'tier': 'quick'},
    'kb_schedule_1v2a': {'kind': 'bounded', 'domain': '1 video + 2 audio samples', 'timeout': 600, 'tier': 'quick'},
    'kb_schedule_2v2a': {'kind': 'bounded', 'domain': '2 video + 2 audio samples', 'timeout': 1800, 'tier': 'thorough'},
    'kb_days_to_ymd': {'kind': 'bounded', 'domain': 'day numbers 0..1499 (1970-01-01 .. 1974-02-08, includes a leap day)', 'timeout': 900, 'tier': 'quick'},
    'kb_frag_accept': {'kind': 'bounded', 'domain': '3 writes, all u64 DTS, public API only', 'timeout': 900, 'tier': 'quick'},
    'kb_frag_flush_ref': {'kind': 'bounded', 'domain': 'write, write, flush, write with all u64 DTS, public API only, segment serialiser stubbed', 'timeout': 900, 'tier': 'quick'},
    'kb_finalize_tiling': {'kind': 'bounded', 'domain': 'video-only VP9 writer: one rejected call, then 1 keyframe at any u64 time, both layouts; movie-header builder stubbed', 'timeout': 1200, 'tier': 'quick'},
    'kb_write_counted_retries': {'kind': 'bounded', 'domain': '3-byte buffer, every schedule of up to 4 Interrupted / one-byte / full / failing write results', 'timeout': 900, 'tier': 'quick'},
    'kb_parsers_vp9_opus_small': {'kind': 'bounded', 'domain': 'every input of at most 8 bytes: extract_vp9_config, is_vp9_keyframe, is_valid_vp9_frame, is_valid_opus_packet, opus_packet_samples (panic freedom)', 'timeout': 1200, 'tier': 'quick'},
    'kb_moov_next_track_id': {'kind': 'bounded', 'domain': 'build_moov_box on empty sample tables, VP9 video, with / without an Opus audio track', 'timeout': 1200, 'tier': 'quick'},
    'kb_media_segment_one': {'kind': 'bounded', 'domain': 'build_media_segment on one 1-byte sample, all u64 pts/dts/base, all u32 sequence numbers', 'timeout': 1200, 'tier': 'quick'},
    'kb_is_keyframe_h264': {'kind': 'bounded', 'domain': 'frames of 1..6 symbolic bytes, H.264 probe vs independent IDR scan', 'timeout': 900, 'tier': 'quick'},
    'kb_is_keyframe_h265': {'kind': 'bounded', 'domain': 'frames of 1..6 symbolic bytes, H.265 probe vs independent IDR/CRA scan', 'timeout': 900, 'tier': 'quick'},
    'kb_is_keyframe_av1_vp9': {'kind': 'bounded', 'domain': 'frames of 1..6 symbolic bytes, AV1 / VP9 probes (panic freedom)', 'timeout': 900, 'tier': 'quick'},
}


def tree_hash():
    h = hashlib.sha256()
    for root, _, files in sorted(os.walk(os.path.join(REPO, 'src'))):
        for f in sorted(files):
            p = os.path.join(root, f)
            h.update(p.encode())
            h.update(open(p, 'rb').read())
    for f in ('Cargo.toml', 'Cargo.lock'):
        h.update(open(os.path.join(REPO, f), 'rb').read())
    for f in sorted(os.listdir(KANI_DIR)):
        h.update(open(os.path.join(KANI_DIR, f), 'rb').read())
    return h.hexdigest()


def kani_version():
    try:
        out = subprocess.run(['cargo', 'kani', '--version'], capture_output=True, text=True).stdout
        return out.strip().split('\n')[0]
    except Exception:
        return 'unknown'


RUNNER_REV = '2'   # part of the cache key: bump when the way a harness is run or its output is read changes


def fq_name(h):
    """fully qualified harness name (cargo kani --harness <fq> --exact): a bare name is a SUBSTRING filter, so `k_lang` would also run
    `k_lang_und` and `k_lang_frag`, and several verdicts would be read as one"""
    for src, hf in ATTACH:
        if re.search(r'\bfn %s\b' % re.escape(h), open(os.path.join(KANI_DIR, hf)).read()):
            mod = src[len('src/'):-len('.rs')].replace('/', '::')
            return '%s::verif_kani::%s' % (mod, h)
    raise KeyError('harness %s not found in %s' % (h, KANI_DIR))


def make_scratch():
    d = '/tmp/muxide-kani-%d' % os.getpid()
    if os.path.exists(d):
        shutil.rmtree(d)
    subprocess.run(['rsync', '-a', '--exclude', 'target', '--exclude', '.git', REPO + '/', d + '/'], check=True)
    for src, hf in ATTACH:
        with open(os.path.join(d, src), 'a') as f:
            f.write('\n#[cfg(kani)]\n#[path = "%s"]\npub(crate) mod verif_kani;\n' % os.path.join(KANI_DIR, hf))
    return d


def parse(out):
    res = {'status': 'tool', 'failed_checks': [], 'checks': 0, 'time_s': 0.0}
    m = re.search(r'\*\* (\d+) of (\d+) failed', out)
    if m:
        res['checks'] = int(m.group(2))
        res['n_failed'] = int(m.group(1))
    m = re.search(r'Verification Time: ([0-9.]+)s', out)
    if m:
        res['time_s'] = float(m.group(1))
    n_verdicts = len(re.findall(r'VERIFICATION:- (?:SUCCESSFUL|FAILED)', out))
    if n_verdicts > 1:
        # more than one harness ran (a name that is a substring of another without --exact): never summarise that as one verdict
        res['status'] = 'tool'
        res['tail'] = 'more than one harness verdict in one run (%d)' % n_verdicts
    elif 'VERIFICATION:- SUCCESSFUL' in out and 'VERIFICATION:- FAILED' not in out:
        res['status'] = 'ok'
    elif 'VERIFICATION:- FAILED' in out:
        fc = []
        # collect failed check descriptions
        for blk in re.split(r'\nCheck \d+: ', out):
            if '- Status: FAILURE' in blk:
                dm = re.search(r'- Description: "(.*?)"\n\s*- Location', blk, re.S)
                lm = re.search(r'- Location: (\S+)', blk)
                fc.append(((re.sub(r'\s+', ' ', dm.group(1)) if dm else '?'), (lm.group(1) if lm else '?')))
        res['failed_checks'] = fc
        # an unwinding assertion failure means the bound was too small: tooling, not a violation
        if fc and all('unwinding assertion' in d for d, _ in fc):
            res['status'] = 'tool'
        else:
            res['status'] = 'fail'
    return res


RSS_LIMIT_KB = 20 * 1024 * 1024      # a harness whose solver grows beyond 20 GB is stopped: undecided, never an alarm


def _group_rss_kb(pgid):
    total = 0
    for pid in os.listdir('/proc'):
        if not pid.isdigit():
            continue
        try:
            if os.getpgid(int(pid)) != pgid:
                continue
            for line in open('/proc/%s/status' % pid):
                if line.startswith('VmRSS:'):
                    total += int(line.split()[1])
                    break
        except Exception:
            continue
    return total


def run_one(scratch, h, timeout):
    t0 = time.time()
    env = dict(os.environ, CARGO_NET_OFFLINE='true')
    logp = os.path.join(scratch, 'verif-kani-%s.log' % h)
    with open(logp, 'w') as lf:
        p = subprocess.Popen(['cargo', 'kani', '-Z', 'stubbing', '--harness', fq_name(h), '--exact'], cwd=scratch, stdout=lf, stderr=subprocess.STDOUT,
                             env=env, start_new_session=True)
        why = None
        while p.poll() is None:
            time.sleep(2)
            if time.time() - t0 > timeout:
                why = 'timeout'
            elif _group_rss_kb(p.pid) > RSS_LIMIT_KB:
                why = 'memory'
            if why:
                try:
                    os.killpg(p.pid, 9)
                except Exception:
                    pass
                p.wait()
                break
    out = open(logp, errors='replace').read()
    if why:
        r = {'status': 'timeout', 'failed_checks': [], 'checks': 0, 'time_s': time.time() - t0, 'stopped': why}
    else:
        r = parse(out)
        if r['status'] == 'tool':
            r['tail'] = out[-1500:]
    r['harness'] = h
    r['wall_s'] = round(time.time() - t0, 1)
    return r


PLAYBACK_TIMEOUT = 1500


def playback(scratch, h, failed_checks=()):
    """Concrete playback of a failed harness: ask Kani for the concrete values of its counterexample, then run the harness
    natively (cargo kani playback: the real code compiled by rustc, kani::any() fed from the recorded values; stubs are NOT
    applied, so stubbed callees run for real).  Returns {'outcome': 'reproduces'|'diverges'|'passes'|'none'|'error', ...}.
    'reproduces' is claimed only when the native panic is one of the checks Kani reported as failed; a different panic (typically
    because a callee that was stubbed for CBMC ran for real) is 'diverges' and is not counted as a replayed counterexample."""
    env = dict(os.environ, CARGO_NET_OFFLINE='true')
    res = {'outcome': 'none'}
    try:
        p = subprocess.run(['cargo', 'kani', '-Z', 'stubbing', '-Z', 'concrete-playback', '--concrete-playback=print', '--harness', fq_name(h), '--exact'],
                           cwd=scratch, capture_output=True, text=True, env=env, timeout=HARNESSES[h]['timeout'] + 300)
        out = p.stdout + p.stderr
        m = re.search(r'#\[test\]\s*\nfn (kani_concrete_playback_\w+)\(\) \{.*?\n\}', out, re.S)
        if not m:
            res['detail'] = 'Kani printed no concrete playback test'
            return res
        test_src, test_name = m.group(0), m.group(1)
        res['test'] = test_src
        res['values'] = [ln.strip()[2:].strip() for ln in test_src.splitlines() if ln.strip().startswith('// ')]
        # put the generated test next to the harness: local copy of the harness file + the test appended
        hf = next(f for src, f in ATTACH if re.search(r'\bfn %s\b' % re.escape(h), open(os.path.join(KANI_DIR, f)).read()))
        src = next(s_ for s_, f in ATTACH if f == hf)
        local = os.path.join(scratch, os.path.dirname(src), 'verif_kani_local_' + hf)
        shutil.copy(os.path.join(KANI_DIR, hf), local)
        with open(local, 'a') as f:
            f.write('\n#[cfg(test)]\nmod verif_playback {\n    use super::*;\n' + test_src + '\n}\n')
        sp = os.path.join(scratch, src)
        t = open(sp).read().replace('#[path = "%s"]' % os.path.join(KANI_DIR, hf), '#[path = "%s"]' % os.path.basename(local))
        open(sp, 'w').write(t)
        p = subprocess.run(['cargo', 'kani', 'playback', '-Z', 'concrete-playback', '--', test_name],
                           cwd=scratch, capture_output=True, text=True, env=env, timeout=PLAYBACK_TIMEOUT)
        out = p.stdout + p.stderr
        if re.search(r'test result: FAILED', out):
            pm = re.search(r'panicked at ([^\n]*)\n(.*?)\n(?:note: |stack backtrace|\n)', out, re.S)
            res['detail'] = ('panicked at %s: %s' % (pm.group(1).rstrip(':'), pm.group(2))) if pm else ''
            msg = re.sub(r'\s+', '', pm.group(2)) if pm else ''
            same = False
            for d, _ in failed_checks:
                dn = re.sub(r'\s+', '', d)
                if dn and (dn in msg or msg in dn or (dn.startswith('indexoutofbounds') and msg.startswith('indexoutofbounds'))):
                    same = True
            # a panic raised inside the library itself (not an assertion of the harness), where Kani too reported a failed check
            # outside the harness file (e.g. a runtime-formatted panic message, which Kani replaces by a placeholder): the real
            # code panics on the recorded input
            if not same and pm and 'verif_kani_local_' not in pm.group(1) and any('/kani/' not in str(l) for _, l in failed_checks):
                same = True
            res['outcome'] = 'reproduces' if same and msg else 'diverges'
            # a harness that replaces a real callee for CBMC (anything but the assert_invariant! shim) runs DIFFERENT code natively:
            # its native failure is not evidence about the counterexample, so it is never counted as a replay
            attrs = re.search(r'((?:\s*#\[[^\n]*\]\n)+)\s*fn %s\b' % re.escape(h), open(os.path.join(KANI_DIR, hf)).read())
            stubs = [a for a in re.findall(r'#\[kani::stub\(([^,]+),', attrs.group(1) if attrs else '') if '__assert_invariant_impl' not in a]
            if stubs and res['outcome'] == 'reproduces':
                res['outcome'] = 'diverges'
                res['detail'] += ' (not counted: the harness stubs %s for CBMC and playback runs the real one)' % ', '.join(x.strip() for x in stubs)
        elif re.search(r'test result: ok\. 1 passed', out):
            res['outcome'] = 'passes'
            res['detail'] = 'the recorded values do not fail natively (the harness stubs a callee that runs for real in playback, or the failure is a Kani-only check)'
        else:
            res['outcome'] = 'error'
            res['detail'] = out[-800:]
    except Exception as ex:                                  # playback is best effort; the violation stands without it
        res['outcome'] = 'error'
        res['detail'] = repr(ex)[:400]
    return res


def run(harnesses, jobs=6):
    """Returns {harness: result}. Cached per harness on the tree hash."""
    os.makedirs(CACHE, exist_ok=True)
    key = hashlib.sha256((tree_hash() + kani_version() + RUNNER_REV).encode()).hexdigest()[:32]
    results = {}
    todo = []
    for h in harnesses:
        cp = os.path.join(CACHE, '%s-%s.json' % (h, key))
        if os.path.exists(cp):
            r = json.load(open(cp))
            r['cached'] = True
            results[h] = r
        else:
            todo.append(h)
    if todo:
        scratch = make_scratch()
        try:
            # build once (first harness compiles the crate), then the rest in parallel
            first = todo[0]
            r = run_one(scratch, first, HARNESSES[first]['timeout'] + 300)
            r['cached'] = False
            results[first] = r
            with cf.ThreadPoolExecutor(max_workers=jobs) as ex:
                futs = {ex.submit(run_one, scratch, h, HARNESSES[h]['timeout']): h for h in todo[1:]}
                for f in cf.as_completed(futs):
                    rr = f.result()
                    rr['cached'] = False
                    results[futs[f]] = rr
            for h in todo:
                if results[h]['status'] == 'fail' and not os.environ.get('VERIF_NO_PLAYBACK'):
                    results[h]['playback'] = playback(scratch, h, results[h].get('failed_checks', []))
            for h in todo:
                if results[h]['status'] in ('ok', 'fail'):
                    json.dump(results[h], open(os.path.join(CACHE, '%s-%s.json' % (h, key)), 'w'))
        finally:
            shutil.rmtree(scratch, ignore_errors=True)
    return results


if __name__ == '__main__':
    hs = sys.argv[1:] or [h for h, d in HARNESSES.items() if d['tier'] == 'quick']
    res = run(hs)
    for h in hs:
        r = res[h]
        print('%-26s %-8s checks=%-5s solver=%6.1fs wall=%6.1fs %s' % (h, r['status'], r.get('checks'), r.get('time_s', 0), r.get('wall_s', 0), 'cached' if r.get('cached') else ''))
        for d, l in r.get('failed_checks', []):
            print('      FAILED: %s @ %s' % (d, l))
        if r.get('playback'):
            print('      PLAYBACK: %s %s %s' % (r['playback']['outcome'], r['playback'].get('values'), r['playback'].get('detail', '')[:300]))
        if r['status'] == 'tool':
            print(r.get('tail', '')[-600:])
