"""Small Rust lexer + item locator used by the extractor.

Only what is needed to find items by name, match braces and apply the
token-level rewrite rules of DESIGN.md section 2.2 on *real* source text.
It never evaluates or reorders code.
"""
import re
from dataclasses import dataclass

IDENT_START = re.compile(r'[A-Za-z_]')
IDENT = re.compile(r'[A-Za-z_][A-Za-z0-9_]*')
NUMBER = re.compile(r'[0-9][0-9A-Za-z_]*(\.[0-9][0-9A-Za-z_]*)?')


@dataclass
class Tok:
    kind: str   # ident, num, str, bstr, char, life, punct, comment, doc, ws
    text: str
    start: int
    end: int


class LexError(Exception):
    pass


def lex(src: str):
    """Return list of Tok covering src completely (including ws/comments)."""
    toks = []
    i, n = 0, len(src)
    while i < n:
        c = src[i]
        s = i
        if c in ' \t\r\n':
            while i < n and src[i] in ' \t\r\n':
                i += 1
            toks.append(Tok('ws', src[s:i], s, i))
            continue
        if src.startswith('//', i):
            j = src.find('\n', i)
            if j < 0:
                j = n
            text = src[i:j]
            kind = 'doc' if (text.startswith('///') and not text.startswith('////')) or text.startswith('//!') else 'comment'
            toks.append(Tok(kind, text, i, j))
            i = j
            continue
        if src.startswith('/*', i):
            depth = 1
            j = i + 2
            while j < n and depth > 0:
                if src.startswith('/*', j):
                    depth += 1
                    j += 2
                elif src.startswith('*/', j):
                    depth -= 1
                    j += 2
                else:
                    j += 1
            if depth:
                raise LexError('unterminated block comment at %d' % i)
            toks.append(Tok('comment', src[i:j], i, j))
            i = j
            continue
        # raw strings / byte strings / raw byte strings
        m = re.match(r'(b?r)(#*)"', src[i:i + 40])
        if m:
            hashes = m.group(2)
            close = '"' + hashes
            j = src.find(close, i + len(m.group(0)))
            if j < 0:
                raise LexError('unterminated raw string at %d' % i)
            j += len(close)
            toks.append(Tok('bstr' if m.group(1).startswith('b') else 'str', src[i:j], i, j))
            i = j
            continue
        if c == '"' or (c == 'b' and i + 1 < n and src[i + 1] == '"'):
            j = i + (2 if c == 'b' else 1)
            while j < n and src[j] != '"':
                if src[j] == '\\':
                    j += 1
                j += 1
            if j >= n:
                raise LexError('unterminated string at %d' % i)
            j += 1
            toks.append(Tok('bstr' if c == 'b' else 'str', src[i:j], i, j))
            i = j
            continue
        if c == "'" or (c == 'b' and i + 1 < n and src[i + 1] == "'"):
            k = i + (1 if c == 'b' else 0)
            # char literal: '\x', 'a', or lifetime 'a
            if k + 1 < n and src[k + 1] == '\\':
                j = k + 2
                while j < n and src[j] != "'":
                    j += 1
                j += 1
                toks.append(Tok('char', src[i:j], i, j))
                i = j
                continue
            # find closing quote within a short window (char literal is one scalar)
            m2 = re.match(r"'[^'\\\n]'", src[k:k + 8])
            if m2:
                j = k + len(m2.group(0))
                toks.append(Tok('char', src[i:j], i, j))
                i = j
                continue
            # lifetime
            m3 = IDENT.match(src, k + 1)
            if m3 and c == "'":
                j = m3.end()
                toks.append(Tok('life', src[i:j], i, j))
                i = j
                continue
            raise LexError('bad quote at %d' % i)
        if IDENT_START.match(c):
            m = IDENT.match(src, i)
            i = m.end()
            toks.append(Tok('ident', m.group(0), s, i))
            continue
        if c.isdigit():
            m = NUMBER.match(src, i)
            i = m.end()
            # do not swallow range operator or method call on integer: "0..n", "1.max()"
            text = m.group(0)
            if '.' in text:
                # accept only if char after '.' is a digit (already ensured by regex)
                pass
            toks.append(Tok('num', text, s, i))
            continue
        # punctuation: single char tokens are enough for our purposes, except we
        # keep '->' '=>' '::' '..' together for convenience.
        for p in ('->', '=>', '::', '..=', '...', '..', '&&', '||', '==', '!=', '<=', '>=', '+=', '-=', '*=', '/=', '|=', '&=', '<<=', '>>='):
            if src.startswith(p, i):
                toks.append(Tok('punct', p, i, i + len(p)))
                i += len(p)
                break
        else:
            toks.append(Tok('punct', c, i, i + 1))
            i += 1
    return toks


def sig_tokens(toks):
    """Significant tokens (no ws/comments/docs)."""
    return [t for t in toks if t.kind not in ('ws', 'comment', 'doc')]


OPEN = {'(': ')', '[': ']', '{': '}'}
CLOSE = {')': '(', ']': '[', '}': '{'}


def match_close(sig, idx):
    """sig[idx] is an opening bracket; return index of its matching close."""
    depth = 0
    for j in range(idx, len(sig)):
        t = sig[j]
        if t.kind == 'punct':
            if t.text in OPEN:
                depth += 1
            elif t.text in CLOSE:
                depth -= 1
                if depth == 0:
                    return j
    raise LexError('unbalanced bracket at %d' % sig[idx].start)


@dataclass
class Item:
    kind: str        # fn, struct, enum, const, impl
    name: str
    owner: str       # impl target type for methods ('' otherwise)
    trait: str       # trait name for trait impls
    start: int       # byte offset of first token of the item proper (after attrs/docs)
    end: int         # byte offset one past closing brace / semicolon
    attr_start: int  # byte offset where attributes/doc comments of the item begin
    body_open: int   # byte offset of the '{' opening the body (fn/impl/struct/enum) or -1
    header: str = ''  # for impl: text of the header up to '{'


def _skip_attrs(sig, i):
    """If sig[i] starts an attribute '#[..]' / '#![..]', return index after it (repeat)."""
    while i < len(sig) and sig[i].text == '#':
        j = i + 1
        if j < len(sig) and sig[j].text == '!':
            j += 1
        if j < len(sig) and sig[j].text == '[':
            i = match_close(sig, j) + 1
        else:
            break
    return i


def find_items(src: str):
    """Locate top-level items and methods in impl blocks. #[cfg(test)] items are skipped."""
    toks = lex(src)
    sig = sig_tokens(toks)
    items = []

    def scan(lo, hi, owner, trait):
        i = lo
        while i < hi:
            attr_i = i
            j = _skip_attrs(sig, i)
            attr_text = src[sig[attr_i].start:sig[j].start] if j < hi and j > attr_i else ''
            i = j
            if i >= hi:
                break
            is_test = 'cfg(test)' in attr_text.replace(' ', '')
            first = i
            # modifiers
            while i < hi and sig[i].kind == 'ident' and sig[i].text in ('pub', 'const', 'unsafe', 'async', 'extern', 'default'):
                if sig[i].text == 'pub' and i + 1 < hi and sig[i + 1].text == '(':
                    i = match_close(sig, i + 1) + 1
                elif sig[i].text == 'const' and i + 1 < hi and sig[i + 1].kind == 'ident' and sig[i + 1].text not in ('fn', 'unsafe', 'async', 'extern'):
                    break
                else:
                    i += 1
            if i >= hi:
                break
            t = sig[i]
            kw = t.text if t.kind == 'ident' else ''
            # doc comments directly above belong to the item; find attr_start in raw source
            attr_start = sig[attr_i].start
            if kw == 'fn':
                name = sig[i + 1].text
                # find body '{' or ';' at depth 0
                k = i + 2
                while k < hi:
                    if sig[k].text in ('(', '['):
                        k = match_close(sig, k) + 1
                        continue
                    if sig[k].text == '{' or sig[k].text == ';':
                        break
                    k += 1
                if sig[k].text == '{':
                    e = match_close(sig, k)
                    if not is_test:
                        items.append(Item('fn', name, owner, trait, sig[first].start, sig[e].end, attr_start, sig[k].start))
                    i = e + 1
                else:
                    i = k + 1
                continue
            if kw in ('struct', 'enum', 'union'):
                name = sig[i + 1].text
                k = i + 2
                while k < hi and sig[k].text not in ('{', ';', '('):
                    if sig[k].text == '<':
                        # skip generics roughly
                        depth = 0
                        while k < hi:
                            if sig[k].text == '<':
                                depth += 1
                            elif sig[k].text == '>':
                                depth -= 1
                                if depth == 0:
                                    break
                            k += 1
                    k += 1
                if sig[k].text == '{':
                    e = match_close(sig, k)
                    end = sig[e].end
                    nxt = e + 1
                elif sig[k].text == '(':
                    e = match_close(sig, k)
                    # tuple struct ends with ';'
                    while sig[e].text != ';':
                        e += 1
                    end = sig[e].end
                    nxt = e + 1
                else:
                    end = sig[k].end
                    nxt = k + 1
                if not is_test:
                    items.append(Item(kw, name, owner, trait, sig[first].start, end, attr_start, sig[k].start))
                i = nxt
                continue
            if kw in ('const', 'static'):
                name = sig[i + 1].text if sig[i + 1].text != 'mut' else sig[i + 2].text
                k = i
                while k < hi and sig[k].text != ';':
                    if sig[k].text in OPEN:
                        k = match_close(sig, k)
                    k += 1
                if not is_test:
                    items.append(Item('const', name, owner, trait, sig[first].start, sig[k].end, attr_start, -1))
                i = k + 1
                continue
            if kw == 'impl':
                # header until '{'
                k = i + 1
                while k < hi and sig[k].text != '{':
                    if sig[k].text in ('(', '['):
                        k = match_close(sig, k)
                    k += 1
                header_toks = sig[i + 1:k]
                # strip generics after impl
                texts = [x.text for x in header_toks]
                # find ' for ' at angle depth 0
                depth = 0
                for_idx = -1
                for q, x in enumerate(texts):
                    if x == '<':
                        depth += 1
                    elif x == '>':
                        depth -= 1
                    elif x == 'for' and depth == 0:
                        for_idx = q
                    elif x == 'where' and depth == 0:
                        texts = texts[:q]
                        break

                def last_ident(ts):
                    depth = 0
                    name = ''
                    for x in ts:
                        if x == '<':
                            depth += 1
                        elif x == '>':
                            depth -= 1
                        elif depth == 0 and re.match(r'^[A-Za-z_]\w*$', x) and x not in ('impl', 'dyn', 'mut', 'const'):
                            name = x
                    return name
                # drop leading generics of impl<...>
                ts = texts
                if ts and ts[0] == '<':
                    depth = 0
                    for q, x in enumerate(ts):
                        if x == '<':
                            depth += 1
                        elif x == '>':
                            depth -= 1
                            if depth == 0:
                                ts = ts[q + 1:]
                                if for_idx >= 0:
                                    for_idx -= q + 1
                                break
                if for_idx >= 0:
                    tr = last_ident(ts[:for_idx])
                    ty = last_ident(ts[for_idx + 1:])
                else:
                    tr = ''
                    ty = last_ident(ts)
                e = match_close(sig, k)
                if not is_test:
                    items.append(Item('impl', ty, '', tr, sig[first].start, sig[e].end, attr_start, sig[k].start,
                                      header=src[sig[first].start:sig[k].start]))
                    scan(k + 1, e, ty, tr)
                i = e + 1
                continue
            if kw == 'mod':
                k = i + 2
                if k < hi and sig[k].text == '{':
                    e = match_close(sig, k)
                    if not is_test:
                        items.append(Item('mod', sig[i + 1].text, owner, trait, sig[first].start, sig[e].end, attr_start, sig[k].start))
                        scan(k + 1, e, owner, trait)
                    i = e + 1
                else:
                    i = k + 1
                continue
            if kw in ('use', 'type', 'trait', 'macro_rules', 'extern'):
                k = i
                while k < hi and sig[k].text not in (';', '{'):
                    if sig[k].text in ('(', '['):
                        k = match_close(sig, k)
                    k += 1
                if k < hi and sig[k].text == '{':
                    k = match_close(sig, k)
                i = k + 1
                continue
            # macro invocation like thread_local! { .. } or other: skip token / group
            if sig[i].text in OPEN:
                i = match_close(sig, i) + 1
            else:
                i += 1

    scan(0, len(sig), '', '')
    return items
