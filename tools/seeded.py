#!/usr/bin/env python3
"""Confirm a seeded change in its scratch worktree, store it under /verif/seeded/<id>/, and run the checks against it.
usage: seeded.py confirm <worktree> <id> <property>     (demo fails with change, passes without; suite green with change)
       seeded.py run <id> [property ...]                (apply patch to /repo, run ./check, undo)"""
import json, os, subprocess, sys, shutil, re, time
VERIF = os.path.dirname(os.path.dirname(os.path.abspath(__file__)))
REPO = os.environ.get('VERIF_REPO', '/repo')      # an evaluation run may use a scratch clone instead of /repo

def sh(cmd, cwd=None, timeout=3600):
    p = subprocess.run(cmd, shell=True, cwd=cwd, capture_output=True, text=True, timeout=timeout)
    return p.returncode, p.stdout + p.stderr

def confirm(wt, sid, prop):
    out = {}
    rc, o = sh('cargo test --offline --test zz_demo 2>&1 | grep -a -E "^test result"', wt)
    out['demo_with_change'] = o.strip()
    sh('cp patch.diff /tmp/zz_patch_%s.diff && git apply -R /tmp/zz_patch_%s.diff' % (sid, sid), wt)
    rc, o = sh('cargo test --offline --test zz_demo 2>&1 | grep -a -E "^test result"', wt)
    out['demo_without_change'] = o.strip()
    sh('git apply /tmp/zz_patch_%s.diff' % sid, wt)
    sh('mkdir -p /tmp/zz_aside && mv tests/zz_demo.rs /tmp/zz_aside/%s.rs' % sid, wt)
    rc, o = sh('cargo test --workspace --offline --no-fail-fast 2>&1 | grep -a -E "^test result" | awk \'{p+=$4; f+=$6} END {print "passed",p,"failed",f}\'', wt)
    out['suite_with_change'] = o.strip()
    sh('mv /tmp/zz_aside/%s.rs tests/zz_demo.rs' % sid, wt)
    d = os.path.join(VERIF, 'seeded', sid)
    os.makedirs(d, exist_ok=True)
    sh('git diff -- src > %s/patch.diff' % d, wt)
    shutil.copy(os.path.join(wt, 'tests/zz_demo.rs'), os.path.join(d, 'demo.rs'))
    meta_txt = open(os.path.join(wt, 'meta.txt')).read() if os.path.exists(os.path.join(wt, 'meta.txt')) else ''
    ok = 'FAILED' in out['demo_with_change'] and 'ok.' in out['demo_without_change'] and 'failed 0' in out['suite_with_change']
    json.dump({'id': sid, 'breaks_property': prop, 'confirmed': ok, 'confirmation': out,
               'author_notes': meta_txt[:6000], 'what_i_ran': 'tools/seeded.py confirm %s %s %s' % (wt, sid, prop)},
              open(os.path.join(d, 'meta.json'), 'w'), indent=1)
    print(sid, 'confirmed' if ok else 'NOT CONFIRMED', out)

def run(sid, props):
    d = os.path.join(VERIF, 'seeded', sid)
    meta = json.load(open(os.path.join(d, 'meta.json')))
    props = props or [meta['breaks_property']]
    rc, o = sh('git -C %s apply %s/patch.diff' % (REPO, d))
    if rc != 0:
        print(sid, 'PATCH DOES NOT APPLY', o)
        return
    res = {}
    try:
        for p in props:
            t0 = time.time()
            rc, o = sh('./check %s' % p, VERIF)
            res[p] = {'exit': rc, 'lines': [l for l in o.split('\n') if l.startswith('VIOLATION') or l.startswith('UNDECIDED') or l.startswith(p + ':')][:8], 'wall_s': round(time.time() - t0, 1)}
            for l in res[p]['lines']:
                # pull obligation names out of replay files
                m = re.search(r'replay=(\S+)', l)
                if m and os.path.exists(m.group(1)):
                    res[p].setdefault('obligations', []).append(json.load(open(m.group(1)))['obligation'][:200])
    finally:
        sh('git -C %s checkout -- .' % REPO)
    meta.setdefault('check_results', {}).update(res)
    json.dump(meta, open(os.path.join(d, 'meta.json'), 'w'), indent=1)
    for p, r in res.items():
        print(sid, p, 'exit', r['exit'], r.get('obligations', r['lines'])[:3])

if __name__ == '__main__':
    if sys.argv[1] == 'confirm':
        confirm(sys.argv[2], sys.argv[3], sys.argv[4])
    else:
        run(sys.argv[2], sys.argv[3:])
