#!/usr/bin/env python3
"""Mechanical extraction of real muxide items into a single Verus file.

usage: extract.py <unit-template.vrs> <repo-root> <out.rs> <out.map.json>

Template language (see DESIGN.md section 2):

  plain lines                      copied verbatim (prelude: spec fns, lemmas, assumed specs)
  //@@ fn <relpath> <Qual::name>   extract that function from the working tree
     //@ tags C14 C12              property tags of the function
     //@ ret r                     name the return value:  -> T   becomes  -> (r: T)
     //@ rule R6 <k> <itname>      optional rewrite rules (R5..R11), see RULES below
     //@ spec                      following lines go between signature and body
     //@ loop <k>                  following lines go in front of the body '{' of loop k
     //@ enter <k> / leave <k>     first / last thing inside the body of loop k
     //@ exit <k>                  first thing after loop k (a position that does not depend on the text of the next statement)
     //@ before <n> <anchor>       in front of the n-th source line containing <anchor>
     //@ after <n> <anchor>        behind that line
     //@ top                       at the very beginning of the function body
     //@ mode external_body        keep only the signature+spec, body is trusted (assumption!)
  //@@ end
  //@@ struct|enum|const <relpath> <Name>   copy a type / constant (R1 only)
  //@@ end

Everything inserted is ghost text (requires/ensures/invariant/decreases/proof blocks/
let ghost/assert); this is linted. No executable token is added except by the
numbered rewrite rules, each of which is logged with its source position.
"""
import hashlib
import json
import os
import re
import sys

sys.path.insert(0, os.path.dirname(os.path.abspath(__file__)))
import rustlex  # noqa: E402
from rustlex import lex, sig_tokens, match_close  # noqa: E402


class ExtractError(Exception):
    """Tooling problem (exit 2): item/anchor not found, rule does not match ..."""


def norm_ws(s):
    return re.sub(r'\s+', ' ', s).strip()


# ----------------------------------------------------------------------------
# rewrite rules (token level)
# ----------------------------------------------------------------------------

def decode_bstr(lit):
    """Rust byte-string literal -> list of byte values."""
    assert lit.startswith('b"') and lit.endswith('"'), lit
    s = lit[2:-1]
    out = []
    i = 0
    while i < len(s):
        c = s[i]
        if c == '\\':
            d = s[i + 1]
            if d == 'x':
                out.append(int(s[i + 2:i + 4], 16))
                i += 4
                continue
            m = {'n': 10, 'r': 13, 't': 9, '\\': 92, '0': 0, '"': 34, "'": 39}
            if d not in m:
                raise ExtractError('unsupported escape in byte string %s' % lit)
            out.append(m[d])
            i += 2
            continue
        out.extend(c.encode('utf-8'))
        i += 1
    return out


def apply_core_rules(text, log, where, keep_pub=False, keep_derive=(), drop_derive=()):
    """R1 (attrs/docs/pub), R2 (to_be_bytes), R3 (byte strings), R4 (assert_invariant!)."""
    toks = lex(text)
    out = []
    i = 0
    n = len(toks)

    def next_sig(j):
        while j < n and toks[j].kind in ('ws', 'comment', 'doc'):
            j += 1
        return j

    while i < n:
        t = toks[i]
        if t.kind == 'doc':
            log.append(('R1', where, 'doc comment dropped'))
            i += 1
            continue
        if t.kind == 'punct' and t.text == '#':
            j = next_sig(i + 1)
            if j < n and toks[j].text == '[':
                # find matching ]
                depth = 0
                k = j
                while k < n:
                    if toks[k].kind == 'punct' and toks[k].text == '[':
                        depth += 1
                    elif toks[k].kind == 'punct' and toks[k].text == ']':
                        depth -= 1
                        if depth == 0:
                            break
                    k += 1
                attr = ''.join(x.text for x in toks[i:k + 1])
                a = norm_ws(attr)
                md = re.match(r'#\[derive\((.*)\)\]$', a)
                if md:
                    keep = [x.strip() for x in md.group(1).split(',') if (x.strip() in ('Clone', 'Copy') or x.strip() in keep_derive) and x.strip() not in drop_derive]
                    if 'PartialEq' in keep and 'Eq' in keep:
                        keep.append('Structural')   # derived PartialEq is structural equality
                    if keep:
                        out.append('#[derive(%s)]' % ', '.join(keep))
                    log.append(('R1', where, 'derive reduced to [%s]: %s' % (', '.join(keep), a[:70])))
                    i = k + 1
                    continue
                if re.match(r'#\[(inline|allow|derive|doc|must_use|cfg_attr|serde)', a) or a.startswith('#[inline'):
                    log.append(('R1', where, 'attribute dropped: ' + a[:60]))
                    i = k + 1
                    continue
                raise ExtractError('unsupported attribute %s in %s' % (a, where))
        if t.kind == 'ident' and t.text == 'pub' and not keep_pub:
            j = next_sig(i + 1)
            if j < n and toks[j].text == '(':
                depth = 0
                k = j
                while k < n:
                    if toks[k].text == '(':
                        depth += 1
                    elif toks[k].text == ')':
                        depth -= 1
                        if depth == 0:
                            break
                    k += 1
                i = k + 1
            else:
                i += 1
            # swallow following whitespace
            if i < n and toks[i].kind == 'ws':
                i += 1
            log.append(('R1', where, 'visibility dropped'))
            continue
        if t.kind == 'ident' and t.text == 'to_be_bytes':
            out.append('v_be')
            log.append(('R2', where, 'to_be_bytes -> v_be'))
            i += 1
            continue
        if t.kind == 'bstr':
            if t.text.startswith('br'):
                raise ExtractError('raw byte string unsupported in ' + where)
            bs = decode_bstr(t.text)
            out.append('&[' + ', '.join(('0x%02xu8' % b) for b in bs) + ']')
            log.append(('R3', where, 'byte string %s expanded' % t.text))
            i += 1
            continue
        if t.kind == 'ident' and t.text == 'assert_invariant':
            j = next_sig(i + 1)
            if j < n and toks[j].text == '!':
                k = next_sig(j + 1)
                if toks[k].text != '(':
                    raise ExtractError('assert_invariant! without ( in ' + where)
                depth = 0
                q = k
                first_comma = -1
                while q < n:
                    x = toks[q]
                    if x.kind == 'punct' and x.text in '([{':
                        depth += 1
                    elif x.kind == 'punct' and x.text in ')]}':
                        depth -= 1
                        if depth == 0:
                            break
                    elif x.kind == 'punct' and x.text == ',' and depth == 1 and first_comma < 0:
                        first_comma = q
                    q += 1
                if first_comma < 0:
                    raise ExtractError('assert_invariant! without message in ' + where)
                cond = ''.join(x.text for x in toks[k + 1:first_comma] if x.kind != 'doc')
                cond = norm_ws(re.sub(r'//[^\n]*', '', cond))
                out.append('let v_inv: bool = ' + cond + '; assert(v_inv)')
                log.append(('R4', where, 'assert_invariant!(%s, ..) -> assert' % cond[:50]))
                i = q + 1
                continue
        out.append(t.text)
        i += 1
    return ''.join(out)


def find_loops(text):
    """Return list of (kw_tok_index_in_sig, body_open_sig_idx, body_close_sig_idx) in source order."""
    toks = lex(text)
    sig = sig_tokens(toks)
    loops = []
    for i, t in enumerate(sig):
        if t.kind == 'ident' and t.text in ('for', 'while', 'loop'):
            # `for` in `impl X for Y` / HRTB cannot occur inside fn bodies we extract
            k = i + 1
            while k < len(sig):
                if sig[k].text in ('(', '['):
                    k = match_close(sig, k) + 1
                    continue
                if sig[k].text == '{':
                    break
                k += 1
            if k >= len(sig):
                continue
            e = match_close(sig, k)
            loops.append((i, k, e))
    return sig, loops


def rule_R6(text, k, itname, log, where):
    """for PAT in EXPR { B }  ->  let mut it = EXPR; loop { match it.next() { None => { break; } Some(PAT) => { B } } }"""
    sig, loops = find_loops(text)
    if k < 1 or k > len(loops):
        raise ExtractError('R6: loop %d not found in %s' % (k, where))
    kw, bo, bc = loops[k - 1]
    if sig[kw].text != 'for':
        raise ExtractError('R6: loop %d is not a for loop in %s' % (k, where))
    # find 'in' at depth 0
    j = kw + 1
    depth = 0
    while j < bo:
        x = sig[j]
        if x.text in '([{':
            depth += 1
        elif x.text in ')]}':
            depth -= 1
        elif x.kind == 'ident' and x.text == 'in' and depth == 0:
            break
        j += 1
    if j >= bo:
        raise ExtractError('R6: no `in` in %s' % where)
    pat = text[sig[kw + 1].start:sig[j].start].strip()
    expr = text[sig[j + 1].start:sig[bo].start].strip()
    body = text[sig[bo].end:sig[bc].start]
    new = ('let mut %s = %s;\n    loop {\n        match %s.next() {\n            None => { break; }\n            Some(%s) => {%s}\n        }\n    }'
           % (itname, expr, itname, pat, body))
    log.append(('R6', where, 'for %s in %s desugared to loop/match over .next()' % (pat, expr)))
    return text[:sig[kw].start] + new + text[sig[bc].end:]


def rule_R7(text, k, log, where):
    """for (I, P) in E.iter().enumerate() { B } -> for I in 0..E.len() { let P = &E[I]; B }
       (pattern `&x` becomes `let x = E[I];`); also E.iter().take(K).enumerate()."""
    sig, loops = find_loops(text)
    if k < 1 or k > len(loops):
        raise ExtractError('R7: loop %d not found in %s' % (k, where))
    kw, bo, bc = loops[k - 1]
    head = text[sig[kw].start:sig[bo].start]
    m = re.match(r'for\s*\(\s*(\w+)\s*,\s*(&?)\s*(\w+)\s*\)\s*in\s+(.+?)\s*\.iter\(\)\s*(?:\.take\((.+?)\))?\s*\.enumerate\(\)\s*$', head, re.S)
    if not m:
        raise ExtractError('R7: header does not match in %s: %s' % (where, norm_ws(head)))
    idx, amp, var, coll, take = m.groups()
    bound = '%s.len()' % coll
    if take:
        bound = 'v_min_usize(%s, %s.len())' % (take, coll)
    let = ('let %s = %s[%s];' % (var, coll, idx)) if amp else ('let %s = &%s[%s];' % (var, coll, idx))
    new_head = 'for %s in 0..%s ' % (idx, bound)
    log.append(('R7', where, 'enumerate() over %s rewritten to index range' % coll))
    return text[:sig[kw].start] + new_head + '{\n        ' + let + text[sig[bo].end:]



def rule_R9(text, log, where):
    """adts_to_raw only: drop the diagnostic closure `let create_hex_dump = |..| -> String {..};` and replace every
    struct literal `AdtsValidationError { kind: K, .. }` by `v_adts_error(K)` (opaque constructor).
    Branch conditions, the order of checks and the Ok value are untouched."""
    toks = lex(text)
    sig = sig_tokens(toks)
    cuts = []   # (start, end, replacement)
    i = 0
    while i < len(sig):
        t = sig[i]
        if t.kind == 'ident' and t.text == 'let' and i + 1 < len(sig) and sig[i + 1].text == 'create_hex_dump':
            # find terminating ';' at depth 0
            k = i
            while k < len(sig) and sig[k].text != ';':
                if sig[k].text in ('(', '[', '{'):
                    k = match_close(sig, k)
                k += 1
            cuts.append((t.start, sig[k].end, '/* R9: diagnostic closure create_hex_dump dropped */'))
            i = k + 1
            continue
        if t.kind == 'ident' and t.text == 'AdtsValidationError' and i + 1 < len(sig) and sig[i + 1].text == '{':
            e = match_close(sig, i + 1)
            # find `kind :` at depth 1
            k = i + 2
            kind_expr = None
            depth = 0
            while k < e:
                x = sig[k]
                if x.text in ('(', '[', '{'):
                    k = match_close(sig, k) + 1
                    continue
                if x.kind == 'ident' and x.text == 'kind' and sig[k + 1].text == ':':
                    q = k + 2
                    while q < e and sig[q].text != ',':
                        if sig[q].text in ('(', '[', '{'):
                            q = match_close(sig, q)
                        q += 1
                    kind_expr = text[sig[k + 2].start:sig[q - 1].end]
                    break
                k += 1
            if kind_expr is None:
                raise ExtractError('R9: struct literal without kind in ' + where)
            cuts.append((t.start, sig[e].end, 'v_adts_error(%s)' % kind_expr))
            i = e + 1
            continue
        i += 1
    if not cuts:
        raise ExtractError('R9: nothing to rewrite in ' + where)
    out = []
    pos = 0
    for a, b, rep in cuts:
        out.append(text[pos:a])
        out.append(rep)
        pos = b
    out.append(text[pos:])
    log.append(('R9', where, 'diagnostic closure dropped; %d AdtsValidationError literals -> v_adts_error(kind)' % (len(cuts) - 1)))
    return ''.join(out)


def rule_R14(text, log, where):
    """`fn f(mut self, ..) { B }` -> `fn f(self, ..) { let mut v_self = self; B[self := v_self] }` (Verus has no `mut self`)."""
    toks = lex(text)
    sig = sig_tokens(toks)
    # locate `mut self` in the parameter list
    k = None
    for i in range(len(sig) - 1):
        if sig[i].kind == 'ident' and sig[i].text == 'mut' and sig[i + 1].text == 'self':
            k = i
            break
    if k is None:
        raise ExtractError('R14: no `mut self` in ' + where)
    # body open
    j = 0
    while j < len(sig):
        if sig[j].text in ('(', '['):
            j = match_close(sig, j) + 1
            continue
        if sig[j].text == '{':
            break
        j += 1
    body_open = sig[j]
    out = []
    pos = 0
    for t in sig:
        if t is sig[k]:
            out.append(text[pos:t.start])
            pos = sig[k + 1].start      # drop `mut `
        elif t.start > body_open.start and t.kind == 'ident' and t.text == 'self':
            out.append(text[pos:t.start])
            out.append('v_self')
            pos = t.end
        elif t is body_open:
            out.append(text[pos:t.end])
            out.append(' let mut v_self = self;')
            pos = t.end
    out.append(text[pos:])
    log.append(('R14', where, '`mut self` parameter rebound to local v_self'))
    return ''.join(out)


def rule_R8(text, log, where):
    """Iterator-adapter chains ending in collect() become explicit loops (assumed std semantics: the adapters visit the elements
    in order and collect() pushes the produced items in order):
      let [mut] N [: T] = E.iter().map(|P| BODY).collect();                      -> let mut N [: T] = Vec::new(); for P in E.iter() { let v_item = BODY; N.push(v_item); }
      let [mut] N [: T] = E.iter().enumerate().filter_map(|P| BODY).collect();   -> ... for P in E.iter().enumerate() { if let Some(v_item) = BODY { N.push(v_item); } }
    Applied to every such statement of the function; closure bodies are copied verbatim."""
    count = 0
    while True:
        toks = lex(text)
        sig = sig_tokens(toks)
        found = None
        for i, t in enumerate(sig):
            if not (t.kind == 'ident' and t.text == 'let'):
                continue
            # let [mut] NAME [: TYPE] =
            j = i + 1
            if sig[j].text == 'mut':
                j += 1
            name = sig[j].text
            j += 1
            ty = None
            if sig[j].text == ':':
                k = j + 1
                depth = 0
                while not (sig[k].text == '=' and depth == 0):
                    if sig[k].text == '<':
                        depth += 1
                    elif sig[k].text == '>':
                        depth -= 1
                    k += 1
                ty = text[sig[j + 1].start:sig[k].start].strip()
                j = k
            if sig[j].text != '=':
                continue
            # find terminating ';' at depth 0
            k = j + 1
            while k < len(sig) and sig[k].text != ';':
                if sig[k].text in ('(', '[', '{'):
                    k = match_close(sig, k)
                k += 1
            if k >= len(sig):
                continue
            # statement must end with . collect ( ) ;
            if not (sig[k - 1].text == ')' and sig[k - 2].text == '(' and sig[k - 3].text == 'collect' and sig[k - 4].text == '.'):
                continue
            # the adapter call right before .collect(): `. (map|filter_map) ( |P| BODY )`
            close = k - 5
            if sig[close].text != ')':
                continue
            # find matching '(' backwards
            depth = 0
            q = close
            while q > j:
                if sig[q].text in (')', ']', '}'):
                    depth += 1
                elif sig[q].text in ('(', '[', '{'):
                    depth -= 1
                    if depth == 0:
                        break
                q -= 1
            adapter = sig[q - 1].text
            if adapter not in ('map', 'filter_map') or sig[q - 2].text != '.':
                continue
            if sig[q + 1].text != '|':
                continue
            # closure params between the two '|'
            pe = q + 2
            depth = 0
            while not (sig[pe].text == '|' and depth == 0):
                if sig[pe].text in ('(', '['):
                    depth += 1
                elif sig[pe].text in (')', ']'):
                    depth -= 1
                pe += 1
            params = text[sig[q + 2].start:sig[pe].start].strip()
            body = text[sig[pe + 1].start:sig[close].start].rstrip()
            recv = text[sig[j + 1].start:sig[q - 2].start].strip()      # e.g. samples.iter() or samples.iter().enumerate()
            found = (sig[i].start, sig[k].end, name, ty, adapter, params, body, recv)
            break
        if not found:
            break
        st, en, name, ty, adapter, params, body, recv = found
        decl = 'let mut %s%s = Vec::new();' % (name, (': ' + ty) if ty else '')
        if adapter == 'map':
            loop = 'for %s in %s {\n        let v_item = %s;\n        %s.push(v_item);\n        }' % (params, recv, body, name)
        else:
            loop = 'for %s in %s {\n        if let Some(v_item) = %s {\n        %s.push(v_item);\n        }\n        }' % (params, recv, body, name)
        text = text[:st] + decl + '\n        ' + loop + text[en:]
        count += 1
        log.append(('R8', where, '`let %s = %s.%s(|%s| ..).collect()` rewritten to an explicit loop' % (name, recv, adapter, params)))
    if count == 0:
        raise ExtractError('R8: no adapter chain found in ' + where)
    return text

def rule_R5(text, log, where):
    """method of `impl Iterator for T` is emitted as inherent method: Self::Item -> concrete type given by template."""
    return text


def rule_subst(text, old, new, count, log, where, rid):
    """Generic, logged literal token-sequence substitution used by R8..R11 (pattern anchored)."""
    if norm_ws(old) not in norm_ws(text):
        raise ExtractError('%s: pattern not found in %s: %s' % (rid, where, old))
    # whitespace-insensitive literal replace
    pat = r'\s*'.join(re.escape(p) for p in re.findall(r'\S+', old))
    res, nsub = re.subn(pat, lambda m: new, text)
    if count and nsub != count:
        raise ExtractError('%s: expected %d occurrences, found %d in %s' % (rid, count, nsub, where))
    log.append((rid, where, 'replaced %d x `%s` by `%s`' % (nsub, norm_ws(old)[:60], norm_ws(new)[:60])))
    return res


# ----------------------------------------------------------------------------
# splicing
# ----------------------------------------------------------------------------

GHOST_OK = re.compile(r'^\s*(proof\s*\{|let ghost|let tracked|assert\b|assert\(|broadcast use|reveal\(|//|\}|$)')


def lint_ghost(lines, where):
    """Integrity rule for body insertions: the inserted text must be a sequence of GHOST statements only -
    `proof { .. }`, `let ghost ..;`, `let tracked ..;`, `assert ..;` / `assert(..) by { .. }`, `broadcast use ..;`, `reveal(..);` -
    checked statement by statement on the token stream (not only on the first line), so no executable token can be spliced in."""
    joined = '\n'.join(lines)
    if re.search(r'\b(assume|admit)\s*\(', joined):
        raise ExtractError('overlay for %s contains assume/admit' % where)
    first = next((l for l in lines if l.strip()), '')
    if not GHOST_OK.match(first):
        raise ExtractError('overlay body insertion for %s does not start with ghost code: %s' % (where, first.strip()))
    try:
        sig = sig_tokens(lex(joined))
    except rustlex.LexError as e:
        raise ExtractError('overlay for %s does not lex: %s' % (where, e))
    i = 0
    n = len(sig)
    while i < n:
        t = sig[i].text
        if t == 'proof' and i + 1 < n and sig[i + 1].text == '{':
            i = match_close(sig, i + 1) + 1
            continue
        ok = (t == 'let' and i + 1 < n and sig[i + 1].text in ('ghost', 'tracked')) or t in ('assert', 'reveal', 'reveal_with_fuel') \
            or (t == 'broadcast' and i + 1 < n and sig[i + 1].text == 'use')
        if not ok:
            raise ExtractError('overlay body insertion for %s contains a non-ghost statement starting at `%s`' % (where, ' '.join(x.text for x in sig[i:i + 6])))
        # skip to the terminating ';' at depth 0 (or a trailing `by { .. }` block without ';')
        while i < n and sig[i].text != ';':
            if sig[i].text in ('(', '[', '{'):
                j = match_close(sig, i)
                if sig[i].text == '{' and (j + 1 >= n or sig[j + 1].text != ';') and t == 'assert':
                    i = j
                    break
                i = j
            i += 1
        i += 1


SPEC_HEAD = re.compile(r'^\s*(requires|ensures|decreases|recommends|invariant|invariant_except_break|opens_invariants|no_unwind|returns|via)\b')


def lint_clauses(lines, where, what):
    """Integrity rule for header insertions (function spec, loop spec): first token is a clause keyword and braces are balanced, so the
    insertion cannot open the body."""
    txt = re.sub(r'//[^\n]*', '', '\n'.join(lines))
    if not txt.strip():
        return
    if re.search(r'\b(assume|admit)\s*\(', txt):
        raise ExtractError('%s of %s contains assume/admit' % (what, where))
    if not SPEC_HEAD.match(txt.strip()):
        raise ExtractError('%s of %s does not start with a clause keyword: %s' % (what, where, txt.strip()[:60]))
    try:
        sig = sig_tokens(lex(txt))
    except rustlex.LexError as e:
        raise ExtractError('%s of %s does not lex: %s' % (what, where, e))
    depth = 0
    for t in sig:
        if t.text in ('(', '[', '{'):
            depth += 1
        elif t.text in (')', ']', '}'):
            depth -= 1
            if depth < 0:
                raise ExtractError('%s of %s closes a bracket it did not open' % (what, where))
    if depth != 0:
        raise ExtractError('%s of %s has unbalanced brackets' % (what, where))


def splice_function(src_text, spec, log, where, degraded=False):
    """Apply rules + overlay to one function. Returns list of (line, origin).

    degraded=True (used only after the normal splice lost an anchor): every shape-dependent directive whose target is gone is
    dropped and only the contract (`spec`) is guaranteed to be attached; the caller records this in the map."""
    text = apply_core_rules(src_text, log, where)
    for r in spec['rules']:
        optional = r[0] == '?' or degraded
        if optional:
            if r[0] == '?':
                r = r[1:]
            try:
                probe = dict(spec)
                probe['rules'] = [r]
                # apply on a copy; on failure the rule is skipped (logged)
                text2 = _apply_one_rule(text, r, log, where)
                text = text2
            except ExtractError as e:
                log.append((r[0], where, 'optional rule not applicable: %s' % e))
                if degraded and not (r[0] in ('R6', 'R7') or (r[0] == 'R8' and len(r) == 1)):
                    # a closure contract, a float wrapper or a call redirection was lost: facts the proof relied on may be missing
                    log.append(('DEGRADED-HINT', where, 'rule %s dropped' % r[0]))
            continue
        text = _apply_one_rule(text, r, log, where)
    return _splice_after_rules(text, src_text, spec, log, where, degraded)


def _apply_one_rule(text, r, log, where):
    if True:
        rid = r[0]
        if rid == 'R6':
            text = rule_R6(text, int(r[1]), r[2] if len(r) > 2 else 'it', log, where)
        elif rid == 'R7':
            text = rule_R7(text, int(r[1]), log, where)
        elif rid == 'R14':
            text = rule_R14(text, log, where)
        elif rid == 'R8' and len(r) == 1:
            text = rule_R8(text, log, where)
        elif rid == 'R9' and len(r) == 1:
            text = rule_R9(text, log, where)
        elif rid in ('R5', 'R8', 'R9', 'R10', 'R11', 'R12', 'R13', 'R15'):
            # //@ rule R9 <<old>> ==> <<new>>
            body = ' '.join(r[1:])
            m = re.match(r'<<(.*)>>\s*==>\s*<<(.*)>>\s*(\d*)$', body, re.S)
            if not m:
                raise ExtractError('bad %s rule syntax for %s' % (rid, where))
            text = rule_subst(text, m.group(1), m.group(2), int(m.group(3) or 0), log, where, rid)
        else:
            raise ExtractError('unknown rule %s for %s' % (rid, where))
    return text


def _splice_after_rules(text, src_text, spec, log, where, degraded=False):
    if spec.get('vacuity') and os.environ.get('VERIF_VACUITY_TWIN'):
        # vacuity guard: the twin of this function gets `ensures false` and MUST be rejected by the verifier
        newspec = []
        done = False
        for l in spec['spec']:
            if not done and re.search(r'\bensures\b', l):
                l = re.sub(r'\bensures\b', 'ensures false, /*VACUITY*/', l, count=1)
                done = True
            newspec.append(l)
        if not done:
            newspec.append('        ensures false, /*VACUITY*/')
        spec = dict(spec)
        spec['spec'] = newspec
    sig, loops = find_loops(text)
    # function body open: first '{' at depth 0 after params
    k = 0
    while k < len(sig):
        if sig[k].text in ('(', '['):
            k = match_close(sig, k) + 1
            continue
        if sig[k].text == '{':
            break
        k += 1
    body_open = sig[k]
    body_close = sig[match_close(sig, k)]

    inserts = []  # (offset, order, text, origin)
    order = [0]

    def add(off, lines, origin):
        order[0] += 1
        inserts.append((off, order[0], '\n' + '\n'.join(lines) + '\n', origin))

    # ret naming
    header = text[:body_open.start]
    if spec.get('ret'):
        # find '->' at depth 0 in header
        hsig = [t for t in sig if t.end <= body_open.start]
        arrow = None
        j = 0
        while j < len(hsig):
            if hsig[j].text in ('(', '['):
                j = match_close(hsig, j) + 1
                continue
            if hsig[j].text == '->':
                arrow = hsig[j]
            if hsig[j].kind == 'ident' and hsig[j].text == 'where':
                break
            j += 1
        if arrow is None:
            raise ExtractError('ret: no return type in %s' % where)
        # return type extends to 'where' or body
        end = hsig[j].start if j < len(hsig) and hsig[j].text == 'where' else body_open.start
        rt = text[arrow.end:end].strip()
        inserts.append((arrow.end, 0, ' (%s: ' % spec['ret'], 'overlay:ret'))
        # closing paren after the type
        tend = arrow.end + len(text[arrow.end:end].rstrip())
        inserts.append((tend, 0, ')', 'overlay:ret'))
    if spec['spec']:
        lint_clauses(spec['spec'], where, 'contract')
        add(body_open.start, spec['spec'], 'overlay:spec')
    if spec.get('top'):
        lint_ghost(spec['top'], where)
        add(body_open.end, spec['top'], 'overlay:top')
    for kind, kk, lines in spec['loopins']:
        if degraded and (kk < 1 or kk > len(loops)):
            log.append(('DEGRADED', where, '%s %d dropped: no such loop' % (kind, kk)))
            continue
        if kk < 1 or kk > len(loops):
            raise ExtractError('%s %d: no such loop in %s' % (kind, kk, where))
        kw, bo, bc = loops[kk - 1]
        if kind == 'loop':
            lint_clauses(lines, where, 'loop %d clauses' % kk)
            add(sig[bo].start, lines, 'overlay:loop%d' % kk)
        elif kind == 'enter':
            lint_ghost(lines, where)
            add(sig[bo].end, lines, 'overlay:enter%d' % kk)
        elif kind == 'leave':
            lint_ghost(lines, where)
            add(sig[bc].start, lines, 'overlay:leave%d' % kk)
        elif kind == 'exit':
            lint_ghost(lines, where)
            add(sig[bc].end, lines, 'overlay:exit%d' % kk)
    # ghost iterator names for `for` loops:  for P in E  ->  for P in name: E
    for kk, nm in spec.get('iters', []):
        if degraded and (kk < 1 or kk > len(loops) or sig[loops[kk - 1][0]].text != 'for'):
            log.append(('DEGRADED', where, 'iter %d dropped: no such for loop' % kk))
            continue
        if kk < 1 or kk > len(loops):
            raise ExtractError('iter %d: no such loop in %s' % (kk, where))
        kw, bo, bc = loops[kk - 1]
        if sig[kw].text != 'for':
            raise ExtractError('iter %d: not a for loop in %s' % (kk, where))
        j = kw + 1
        depth = 0
        while j < bo:
            x = sig[j]
            if x.text in '([{':
                depth += 1
            elif x.text in ')]}':
                depth -= 1
            elif x.kind == 'ident' and x.text == 'in' and depth == 0:
                break
            j += 1
        if j >= bo:
            raise ExtractError('iter %d: no `in` in %s' % (kk, where))
        inserts.append((sig[j].end, 0, ' %s:' % nm, 'overlay:iter'))
    # line anchors
    line_starts = [0]
    for m in re.finditer('\n', text):
        line_starts.append(m.end())
    tlines = text.split('\n')
    for kind, nth, anchor, lines in spec['anchors']:
        lint_ghost(lines, where)
        hits = [i for i, l in enumerate(tlines) if norm_ws(anchor) in norm_ws(l)]
        if degraded and len(hits) < nth:
            log.append(('DEGRADED', where, 'ghost block at anchor %r (#%d) dropped: anchor not found' % (anchor, nth)))
            log.append(('DEGRADED-HINT', where, 'ghost block dropped'))
            continue
        if len(hits) < nth:
            raise ExtractError('anchor %r (#%d) not found in %s' % (anchor, nth, where))
        li = hits[nth - 1]
        if kind == 'before':
            add(line_starts[li], [l for l in lines] + [''], 'overlay:before')
        else:
            add(line_starts[li] + len(tlines[li]), lines, 'overlay:after')

    if spec.get('mode') == 'external_body':
        # keep signature + spec only; body replaced by unimplemented!() (assumption, reported)
        text = text[:body_open.start] + '{ unimplemented!() }'
        inserts = [x for x in inserts if x[0] <= body_open.start]
        log.append(('EXTERNAL_BODY', where, 'body not verified: contract is an assumption'))

    # apply inserts: build list of segments with origins
    inserts.sort(key=lambda x: (x[0], x[1]))
    segs = []
    pos = 0
    for off, _, ins, origin in inserts:
        if off > pos:
            segs.append((text[pos:off], 'repo'))
            pos = off
        segs.append((ins, origin))
    segs.append((text[pos:], 'repo'))
    if ''.join(seg for seg, origin in segs if origin == 'repo') != text:
        raise ExtractError('integrity: the repository-origin segments of %s do not reassemble to the extracted text' % where)
    if spec.get('mode') == 'external_body':
        segs.insert(0, ('#[verifier::external_body]\n', 'overlay:external_body'))
    # to lines with origin: a line's origin is 'repo' if it has any repo char that is non-ws
    out_lines = []
    cur = ''
    cur_orig = set()
    for seg, origin in segs:
        parts = seg.split('\n')
        for pi, part in enumerate(parts):
            if pi > 0:
                out_lines.append((cur, cur_orig))
                cur = ''
                cur_orig = set()
            cur += part
            if part.strip():
                cur_orig.add(origin)
    out_lines.append((cur, cur_orig))
    return out_lines, text


# ----------------------------------------------------------------------------
# template processing
# ----------------------------------------------------------------------------

ITEM_START = {'proof', 'spec', 'fn', 'pub', 'impl', 'broadcast', 'open', 'closed', 'exec', 'struct', 'enum', 'mod', 'use', 'type',
              'const', 'trait', 'uninterp', 'global', 'verus', 'static'}


def import_lemmas(text, home):
    """`//@@ import file`: include a prelude whose lemmas are PROVED in another unit (the one that `include`s the same file):
    every `proof fn` keeps its statement (requires/ensures) and loses its body, marked external_body + `imported-lemma`.
    This is modular verification at the lemma level; the home unit re-proves the identical text on every run."""
    toks = lex(text)
    sig = sig_tokens(toks)
    cuts = []
    i = 0
    n = len(sig)
    while i < n:
        t = sig[i]
        if t.kind == 'ident' and t.text == 'proof' and i + 1 < n and sig[i + 1].text == 'fn':
            # start of item: include preceding `pub`, `broadcast`, `pub(crate)`
            start = i
            while start > 0 and sig[start - 1].kind == 'ident' and sig[start - 1].text in ('pub', 'broadcast', 'open', 'closed'):
                start -= 1
            # skip to parameter list
            k = i + 2
            while k < n and sig[k].text != '(':
                if sig[k].text == '<':
                    depth = 0
                    while k < n:
                        if sig[k].text == '<':
                            depth += 1
                        elif sig[k].text == '>':
                            depth -= 1
                            if depth == 0:
                                break
                        k += 1
                k += 1
            k = match_close(sig, k) + 1
            body = None
            while k < n:
                if sig[k].text in ('(', '['):
                    k = match_close(sig, k) + 1
                    continue
                if sig[k].text == '{':
                    e = match_close(sig, k)
                    nxt = sig[e + 1] if e + 1 < n else None
                    if nxt is None or nxt.text == '}' or nxt.text == '#' or (nxt.kind == 'ident' and nxt.text in ITEM_START):
                        body = (k, e)
                        break
                    k = e + 1
                    continue
                if sig[k].text == ';':
                    break
                k += 1
            if body:
                cuts.append((sig[start].start, sig[body[0]].start, sig[body[1]].end))
                i = body[1] + 1
                continue
        i += 1
    out = []
    pos = 0
    for st, bo, be in cuts:
        out.append(text[pos:st])
        out.append('#[verifier::external_body] /* imported-lemma: proved in unit %s */ ' % home)
        out.append(text[st:bo])
        out.append('{ }')
        pos = be
    out.append(text[pos:])
    return ''.join(out)


def expand_includes(path, depth=0):
    root = os.path.dirname(os.path.dirname(os.path.abspath(__file__)))
    out = []
    for l in open(path).read().split('\n'):
        inc = re.match(r'\s*//@@\s+(include|import)\s+(\S+)(?:\s+(\S+))?\s*$', l)
        if inc:
            if depth > 5:
                raise ExtractError('include depth exceeded at ' + path)
            sub = expand_includes(os.path.join(root, inc.group(2)), depth + 1)
            if inc.group(1) == 'import':
                home = inc.group(3) or '?'
                sub = import_lemmas('\n'.join(sub), home).split('\n')
            out.extend(sub)
        else:
            out.append(l)
    return out


def parse_template(path):
    """Yield ('text', [lines]) and ('item', dict) entries."""
    entries = []
    lines = expand_includes(path)
    i = 0
    buf = []
    while i < len(lines):
        l = lines[i]
        m = re.match(r'\s*//@@\s+(fn|struct|enum|const|mod)\s+(\S+)\s+(\S+)\s*$', l)
        if not m:
            if re.match(r'\s*//@@\s+rlimit\s+\d+', l):
                buf.append('// ' + l.strip())
                i += 1
                continue
            if re.match(r'\s*//@@', l):
                raise ExtractError('%s:%d: stray directive %s' % (path, i + 1, l.strip()))
            buf.append(l)
            i += 1
            continue
        if buf:
            entries.append(('text', buf, None))
            buf = []
        item = {'kind': m.group(1), 'file': m.group(2), 'name': m.group(3), 'tags': [], 'ret': None,
                'rules': [], 'spec': [], 'loopins': [], 'anchors': [], 'top': [], 'mode': None,
                'tline': i + 1, 'template': path}
        i += 1
        cur = None
        while i < len(lines):
            l = lines[i]
            if re.match(r'\s*//@@\s+end\s*$', l):
                i += 1
                break
            if re.match(r'\s*//@@', l):
                raise ExtractError('%s:%d: missing //@@ end before %s' % (path, i + 1, l.strip()))
            d = re.match(r'\s*//@\s+(\w+)\s*(.*)$', l)
            if d:
                cmd, arg = d.group(1), d.group(2).strip()
                cur = None
                if cmd == 'tags':
                    item['tags'] = arg.split()
                elif cmd == 'ret':
                    item['ret'] = arg
                elif cmd == 'rule':
                    item['rules'].append(arg.split(' '))
                elif cmd == 'ruleopt':
                    item['rules'].append(['?'] + arg.split(' '))
                elif cmd == 'mode':
                    item['mode'] = arg
                elif cmd == 'vacuity':
                    item['vacuity'] = True
                elif cmd == 'keepderive':
                    item['keepderive'] = arg.split()
                elif cmd == 'keeppub':
                    item['keeppub'] = True
                elif cmd == 'dropderive':
                    item['dropderive'] = arg.split()
                elif cmd == 'specfile':
                    sp = os.path.join(os.path.dirname(os.path.dirname(os.path.abspath(__file__))), arg)
                    item['spec'].extend(open(sp).read().rstrip('\n').split('\n'))
                elif cmd == 'spec':
                    cur = item['spec']
                elif cmd == 'top':
                    cur = item['top']
                elif cmd == 'iter':
                    kk, nm = arg.split()
                    item.setdefault('iters', []).append((int(kk), nm))
                elif cmd in ('loop', 'enter', 'leave', 'exit'):
                    cur = []
                    item['loopins'].append((cmd, int(arg), cur))
                elif cmd in ('before', 'after'):
                    mm = re.match(r'(\d+)\s+(.*)$', arg)
                    if not mm:
                        raise ExtractError('%s:%d: bad anchor directive' % (path, i + 1))
                    cur = []
                    item['anchors'].append((cmd, int(mm.group(1)), mm.group(2), cur))
                else:
                    raise ExtractError('%s:%d: unknown directive %s' % (path, i + 1, cmd))
            else:
                if cur is None:
                    if l.strip():
                        raise ExtractError('%s:%d: text outside a directive block: %s' % (path, i + 1, l.strip()))
                else:
                    cur.append(l)
            i += 1
        entries.append(('item', None, item))
    if buf:
        entries.append(('text', buf, None))
    return entries


_item_cache = {}


def locate(repo, relpath, kind, qual):
    path = os.path.join(repo, relpath)
    if path not in _item_cache:
        if not os.path.exists(path):
            raise ExtractError('source file missing: ' + relpath)
        src = open(path).read()
        _item_cache[path] = (src, rustlex.find_items(src))
    src, items = _item_cache[path]
    parts = qual.split('::')
    cands = []
    for it in items:
        if it.kind != kind and not (kind == 'struct' and it.kind in ('struct',)):
            continue
        if len(parts) == 1 and it.name == parts[0] and it.owner == '':
            cands.append(it)
        elif len(parts) == 2 and it.name == parts[1] and it.owner == parts[0]:
            cands.append(it)
        elif len(parts) == 3 and it.name == parts[2] and it.owner == parts[0] and it.trait == parts[1]:
            cands.append(it)
    if len(cands) != 1:
        raise ExtractError('%s %s in %s: %d candidates' % (kind, qual, relpath, len(cands)))
    it = cands[0]
    line = src.count('\n', 0, it.start) + 1
    return src, it, line


def build_unit(template, repo, out_rs, out_map):
    entries = parse_template(template)
    log = []
    out = []      # (line, origin-string)
    functions = []
    for kind, lines, item in entries:
        if kind == 'text':
            for l in lines:
                out.append((l, 'prelude'))
            continue
        src, it, line = locate(repo, item['file'], item['kind'], item['name'])
        where = '%s::%s' % (item['file'], item['name'])
        text = src[(it.attr_start if item['kind'] in ('struct', 'enum') else it.start):it.end]
        sha = hashlib.sha256(text.encode()).hexdigest()
        if item['kind'] == 'fn':
            degraded = None
            try:
                olines, rewritten = splice_function(text, item, log, where)
            except ExtractError as e:
                # the function no longer has the shape the proof overlay was written for: keep its CONTRACT, drop what cannot be
                # attached, and let the verifier decide what it still can (see runner: failures in a degraded function that still
                # has loops are undecided, failures in loop-free code are reported)
                if not item['spec'] or item['mode'] == 'external_body':
                    raise
                degraded = str(e)
                log.append(('DEGRADED', where, 'overlay lost its anchor (%s); contract kept, shape-dependent directives dropped' % e))
                olines, rewritten = splice_function(text, item, log, where, degraded=True)
        else:
            t2 = apply_core_rules(text, log, where, keep_pub=True, keep_derive=tuple(item.get('keepderive', ())), drop_derive=tuple(item.get('dropderive', ())))
            for r in item['rules']:
                body = ' '.join(r[1:])
                m = re.match(r'<<(.*)>>\s*==>\s*<<(.*)>>\s*(\d*)$', body, re.S)
                if not m:
                    raise ExtractError('bad rule syntax for %s' % where)
                t2 = rule_subst(t2, m.group(1), m.group(2), int(m.group(3) or 0), log, where, r[0])
            olines = [(l, {'repo'}) for l in t2.split('\n')]
            if item['spec']:
                olines = [(l, {'overlay:attr'}) for l in item['spec']] + olines
        first_out = len(out) + 1
        # compute source line numbers for repo-origin lines (approximate: sequential)
        for l, origs in olines:
            if 'repo' in origs:
                origin = 'repo:%s' % item['file']
            elif origs:
                origin = sorted(origs)[0]
            else:
                origin = 'blank'
            out.append((l, origin))
        first_loop = None
        if item['kind'] == 'fn':
            for li, (l, origs) in enumerate(olines):
                if 'repo' in origs and re.match(r'\s*(?:\'\w+\s*:\s*)?(for|while|loop)\b', l):
                    first_loop = first_out + li
                    break
        functions.append({'kind': item['kind'], 'file': item['file'], 'name': item['name'], 'src_line': line, 'first_loop_line': first_loop,
                          'src_end_line': line + text.count('\n'), 'sha256': sha, 'tags': item['tags'],
                          'out_first': first_out, 'out_last': len(out), 'mode': item['mode'],
                          'clauses': count_clauses(item), 'degraded': degraded if item['kind'] == 'fn' else None,
                          'degraded_hint_lost': any(a == 'DEGRADED-HINT' and b == where for a, b, _ in log),
                          'has_loops': bool(find_loops(rewritten)[1]) if item['kind'] == 'fn' else False})
    out = auto_consts(out, functions, repo, log)
    with open(out_rs, 'w') as f:
        f.write('\n'.join(l for l, _ in out) + '\n')
    m = {'template': template, 'functions': functions,
         'rules': [{'rule': a, 'where': b, 'what': c} for a, b, c in log],
         'origins': [o for _, o in out]}
    with open(out_map, 'w') as f:
        json.dump(m, f)
    return m


def auto_consts(out, functions, repo, log):
    """A top-level `const NAME` of a source file that an extracted function of the same file mentions, and that the unit does not define,
    is copied verbatim (R1 only) in front of the first extracted item. Keeps a unit decidable when a change starts using a constant the
    template's author had no reason to list. Logged as rule AUTO-CONST."""
    for _round in range(4):
        text = '\n'.join(l for l, _ in out)
        defined = set(re.findall(r'\b(?:const|static)\s+([A-Z][A-Z0-9_]*)\b', text))
        used_by_file = {}
        for l, origin in out:
            if origin.startswith('repo:'):
                code = re.sub(r'"(?:[^"\\]|\\.)*"', '""', l.split('//')[0])
                for nm in re.findall(r'(?<![:\w])([A-Z][A-Z0-9_]{2,})\b(?!\s*::)', code):
                    used_by_file.setdefault(origin[5:], set()).add(nm)
        add = []
        for rel, names in used_by_file.items():
            path = os.path.join(repo, rel)
            if path not in _item_cache:
                if not os.path.exists(path):
                    continue
                src0 = open(path).read()
                _item_cache[path] = (src0, rustlex.find_items(src0))
            src0, items = _item_cache[path]
            for it in items:
                if it.kind == 'const' and it.owner == '' and it.name in names and it.name not in defined:
                    txt = apply_core_rules(src0[it.start:it.end], log, '%s::%s' % (rel, it.name), keep_pub=False)
                    add.append((rel, it.name, txt))
                    defined.add(it.name)
            # constants imported from another module of the crate: `use crate::a::b::{.., NAME, ..};`
            for um in re.finditer(r'\buse\s+crate::([\w:]+?)::(?:\{([^}]*)\}|(\w+))\s*;', src0):
                imported = [x.strip() for x in (um.group(2) or um.group(3)).split(',')]
                for nm in imported:
                    if nm in names and nm not in defined:
                        modp = um.group(1).replace('::', '/')
                        for cand in ('src/%s.rs' % modp, 'src/%s/mod.rs' % modp):
                            p2 = os.path.join(repo, cand)
                            if not os.path.exists(p2):
                                continue
                            if p2 not in _item_cache:
                                s2 = open(p2).read()
                                _item_cache[p2] = (s2, rustlex.find_items(s2))
                            s2, items2 = _item_cache[p2]
                            for it in items2:
                                if it.kind == 'const' and it.owner == '' and it.name == nm and nm not in defined:
                                    txt = apply_core_rules(s2[it.start:it.end], log, '%s::%s' % (cand, nm), keep_pub=False)
                                    add.append((cand, nm, txt))
                                    defined.add(nm)
        if not add:
            break
        first = next((i for i, (_, o) in enumerate(out) if o.startswith('repo:')), len(out))
        ins = []
        for rel, nm, txt in add:
            log.append(('AUTO-CONST', '%s::%s' % (rel, nm), 'constant used by an extracted function and not listed in the unit: copied automatically'))
            for l in txt.split('\n'):
                ins.append((l, 'repo:%s' % rel))
        out = out[:first] + ins + out[first:]
        # shift recorded line numbers
        for f in functions:
            if f['out_first'] > first:
                f['out_first'] += len(ins)
                f['out_last'] += len(ins)
                if f.get('first_loop_line'):
                    f['first_loop_line'] += len(ins)
    return out


def count_clauses(item):
    """Number of contract clauses spliced for this item (ensures/requires/invariant/decreases/assert)."""
    n = 0
    blocks = [item['spec'], item['top']] + [x[2] for x in item['loopins']] + [x[3] for x in item['anchors']]
    for b in blocks:
        txt = '\n'.join(b)
        txt = re.sub(r'//[^\n]*', '', txt)
        # a clause ends with a comma at depth 0 within requires/ensures/invariant; approximate by counting
        # top-level commas + keywords
        for kw in ('requires', 'ensures', 'invariant', 'decreases'):
            for m in re.finditer(r'\b' + kw + r'\b', txt):
                n += 1
        n += len(re.findall(r'\bassert\s*\(', txt))
        depth = 0
        for ch in txt:
            if ch in '([{':
                depth += 1
            elif ch in ')]}':
                depth -= 1
            elif ch == ',' and depth == 0:
                n += 1
    return n


if __name__ == '__main__':
    try:
        build_unit(sys.argv[1], sys.argv[2], sys.argv[3], sys.argv[4])
    except (ExtractError, rustlex.LexError) as e:
        print('EXTRACT-ERROR: %s' % e)
        sys.exit(2)
