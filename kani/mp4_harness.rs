// Kani harnesses attached (on a scratch copy) as a child module of muxide::muxer::mp4, so that private items are visible.
// k_*  : complete over the stated domain (loop-free or loops bounded by type width)
// kb_* : BOUNDED stand-ins for contracts that unit `layout` assumes (bound stated per harness)
use super::*;

/// test-only window onto the queued samples (used by the API-level harnesses; never compiled into the library)
pub(crate) fn peek_video<W: std::io::Write>(w: &Mp4Writer<W>, i: usize) -> Option<(u64, u64, bool, usize)> {
    w.video_samples.get(i).map(|s| (s.pts, s.dts, s.is_keyframe, s.data.len()))
}
pub(crate) fn peek_audio<W: std::io::Write>(w: &Mp4Writer<W>, i: usize) -> Option<(u64, u64, usize)> {
    w.audio_samples.get(i).map(|s| (s.pts, s.dts, s.data.len()))
}

fn stub_inv(condition: bool, _message: &str, _context: Option<&str>) {
    assert!(condition, "assert_invariant! violated");
}

/// C07: AudioSpecificConfig for all u32 x u16: AOT 2, frequency index per the ISO table for the 13 standard rates, channel nibble.
#[kani::proof]
fn k_asc() {
    let rate: u32 = kani::any();
    let ch: u16 = kani::any();
    let a = build_audio_specific_config(rate, ch);
    let bits = ((a[0] as u16) << 8) | a[1] as u16;
    assert!(bits >> 11 == 2);                                  // audioObjectType = 2 (AAC LC)
    let idx = (bits >> 7) & 0x0f;
    let table: [u32; 13] = [96000, 88200, 64000, 48000, 44100, 32000, 24000, 22050, 16000, 12000, 11025, 8000, 7350];
    let mut i = 0;
    while i < 13 {
        if rate == table[i] { assert!(idx as usize == i); }
        i += 1;
    }
    assert!(idx <= 12);
    if ch <= 15 { assert!((bits >> 3) & 0x0f == ch); }
    assert!(bits & 0x07 == 0);                                  // frameLengthFlag, dependsOnCoreCoder, extensionFlag = 0
}

/// C18: ISO-639-2 packing: for all 26^3 lower-case codes the three 5-bit fields + 0x60 give the letters back; pad bit 0.
#[kani::proof]
#[kani::unwind(5)]
fn k_lang() {
    let a: u8 = kani::any();
    let b: u8 = kani::any();
    let c: u8 = kani::any();
    kani::assume(a >= b'a' && a <= b'z' && b >= b'a' && b <= b'z' && c >= b'a' && c <= b'z');
    let bytes = [a, b, c];
    let s = core::str::from_utf8(&bytes).unwrap();
    let p = encode_language_code(s);
    let v = ((p[0] as u16) << 8) | p[1] as u16;
    assert!(v >> 15 == 0);
    assert!(((v >> 10) & 0x1f) as u8 + 0x60 == a);
    assert!(((v >> 5) & 0x1f) as u8 + 0x60 == b);
    assert!((v & 0x1f) as u8 + 0x60 == c);
}
#[kani::proof]
#[kani::unwind(5)]
fn k_lang_und() {
    let p = encode_language_code("und");
    assert!(p == [0x55, 0xc4]);
}

fn any_sample() -> SampleInfo {
    // payload of 1 or 2 symbolic bytes (from_samples only looks at the length)
    let mut data = Vec::new();
    data.push(kani::any());
    if kani::any() { data.push(kani::any()); }
    SampleInfo { pts: kani::any(), dts: kani::any(), data, is_keyframe: kani::any(), duration: kani::any() }
}

fn check_from_samples(n: usize) {
    let mut samples: Vec<SampleInfo> = Vec::new();
    if n >= 1 { samples.push(any_sample()); }
    if n >= 2 { samples.push(any_sample()); }
    if n >= 3 { samples.push(any_sample()); }
    let fallback: Option<u32> = kani::any();
    let spc: u32 = kani::any();
    let o0: u32 = kani::any();
    let o1: u32 = kani::any();
    let two: bool = kani::any();
    let mut offs: Vec<u32> = Vec::new();
    offs.push(o0);
    if two { offs.push(o1); }
    let t = SampleTables::from_samples(&samples, offs, spc, fallback);
    assert!(t.samples_per_chunk == spc);
    assert!(t.chunk_offsets.len() == if two { 2 } else { 1 } && t.chunk_offsets[0] == o0);
    if two { assert!(t.chunk_offsets[1] == o1); }
    assert!(t.durations.len() == n && t.sizes.len() == n && t.cts_offsets.len() == n);
    let mut k = 0;
    let mut nkey = 0usize;
    let mut any_cts = false;
    while k < n {
        let s = &samples[k];
        let want = match s.duration { Some(d) => d, None => if k == n - 1 { fallback.unwrap_or(1) } else { 1 } };
        assert!(t.durations[k] == want);
        assert!(t.sizes[k] as usize == s.data.len());
        // composition offset: low 32 bits of the wrapping difference; exact whenever it fits (C16 exactness is claimed only then)
        let diff = s.pts as i128 - s.dts as i128;
        if diff >= i32::MIN as i128 && diff <= i32::MAX as i128 { assert!(t.cts_offsets[k] as i128 == diff); }
        assert!(t.cts_offsets[k] == s.pts.wrapping_sub(s.dts) as i32);
        if t.cts_offsets[k] != 0 { any_cts = true; }
        if s.is_keyframe { assert!(nkey < t.keyframes.len() && t.keyframes[nkey] as usize == k + 1); nkey += 1; }
        k += 1;
    }
    assert!(t.keyframes.len() == nkey);
    assert!(t.has_bframes == any_cts);
    core::mem::forget(t);
    core::mem::forget(samples);
}
/// BOUNDED (exactly 0, 1, 2, 3 samples; payload 1..2 bytes; pts, dts, key flags, durations, fallback, offsets fully symbolic):
/// the contract `tables_are` that unit layout assumes for SampleTables::from_samples.
#[kani::proof]
#[kani::unwind(5)]
fn kb_from_samples_0() { check_from_samples(0); }
#[kani::proof]
#[kani::unwind(5)]
fn kb_from_samples_1() { check_from_samples(1); }
#[kani::proof]
#[kani::unwind(5)]
fn kb_from_samples_2() { check_from_samples(2); }
#[kani::proof]
#[kani::unwind(5)]
fn kb_from_samples_3() { check_from_samples(3); }

/// BOUNDED (n <= 4): total_duration is the u64 sum of the durations.
#[kani::proof]
#[kani::unwind(6)]
fn kb_total_duration() {
    let n: usize = kani::any();
    kani::assume(n <= 4);
    let mut d: Vec<u32> = Vec::new();
    let mut sum: u64 = 0;
    let mut i = 0;
    while i < n { let x: u32 = kani::any(); d.push(x); sum += x as u64; i += 1; }
    let t = SampleTables { durations: d, sizes: Vec::new(), keyframes: Vec::new(), chunk_offsets: Vec::new(), samples_per_chunk: 1, cts_offsets: Vec::new(), has_bframes: false };
    assert!(t.total_duration() == sum);
}

/// BOUNDED (n <= 3): total_duration_fits(samples, last) is exactly "the durations the tables will carry sum to at most u32::MAX".
#[kani::proof]
#[kani::unwind(5)]
fn kb_total_duration_fits() {
    let n: usize = kani::any();
    kani::assume(n <= 3);
    let last: Option<u32> = kani::any();
    let mut v: Vec<SampleInfo> = Vec::new();
    let mut sum: u128 = 0;
    let mut i = 0;
    while i < n {
        let d: Option<u32> = kani::any();
        let eff: u32 = match d { Some(x) => x, None => if i + 1 == n { match last { Some(l) => l, None => 1 } } else { 1 } };
        sum += eff as u128;
        v.push(SampleInfo { pts: kani::any(), dts: kani::any(), data: Vec::new(), is_keyframe: false, duration: d });
        i += 1;
    }
    let r = Mp4Writer::<Vec<u8>>::total_duration_fits(&v, last);
    assert!(r == (sum <= u32::MAX as u128));
}

fn check_schedule(nv: usize, na: usize) {
    let mut w: Mp4Writer<Vec<u8>> = Mp4Writer::new(Vec::new(), VideoCodec::H264);
    let mut i = 0;
    while i < nv {
        let s = SampleInfo { pts: kani::any(), dts: kani::any(), data: Vec::new(), is_keyframe: false, duration: None };
        if i > 0 { kani::assume(s.dts > w.video_samples[i - 1].dts); }
        w.video_samples.push(s);
        i += 1;
    }
    let mut j = 0;
    while j < na {
        let p: u64 = kani::any();
        let s = SampleInfo { pts: p, dts: p, data: Vec::new(), is_keyframe: false, duration: None };
        if j > 0 { kani::assume(s.dts >= w.audio_samples[j - 1].dts); }
        w.audio_samples.push(s);
        j += 1;
    }
    let s = w.compute_interleave_schedule();
    assert!(s.len() == nv + na);
    let mut vc = 0usize;
    let mut ac = 0usize;
    let mut k = 0;
    while k < s.len() {
        let (key, kind, idx) = s[k];
        match kind {
            TrackKind::Video => { assert!(idx == vc); assert!(key == w.video_samples[idx].dts); vc += 1; }
            TrackKind::Audio => { assert!(idx == ac); assert!(key == w.audio_samples[idx].dts); ac += 1; }
        }
        if k > 0 {
            let (pk, pkind, _) = s[k - 1];
            assert!(pk < key || (pk == key && (matches!(pkind, TrackKind::Video) || matches!(kind, TrackKind::Audio))));
        }
        k += 1;
    }
    assert!(vc == nv && ac == na);
    core::mem::forget(s);
    core::mem::forget(w);
}
/// BOUNDED (exactly nv video + na audio samples for the listed small counts; all u64 timestamps under the writer invariant:
/// video DTS strictly increasing, audio DTS == PTS non-decreasing): the schedule contract that unit layout assumes (C15, C01):
/// permutation, per-track index order, merge by decode time with video first on ties.
#[kani::proof]
#[kani::unwind(6)]
fn kb_schedule_1v1a() { check_schedule(1, 1); }
#[kani::proof]
#[kani::unwind(6)]
fn kb_schedule_2v1a() { check_schedule(2, 1); }
#[kani::proof]
#[kani::unwind(6)]
fn kb_schedule_1v2a() { check_schedule(1, 2); }
#[kani::proof]
#[kani::unwind(6)]
fn kb_schedule_2v2a() { check_schedule(2, 2); }

/// BOUNDED (days below 1500 = 1970-01-01 .. 1974-02-08, includes the leap day 1972-02-29): days_to_ymd returns a valid calendar date whose day number, computed by an
/// independent civil-date formula (days_from_civil, Hinnant), is the input.
#[kani::proof]
#[kani::unwind(14)]
fn kb_days_to_ymd() {
    let n: u64 = kani::any();
    kani::assume(n < 1500);
    let (y, m, d) = days_to_ymd(n);
    assert!(y >= 1970 && y <= 1974 && m >= 1 && m <= 12 && d >= 1 && d <= 31);
    // days_from_civil
    let yy: i64 = if m <= 2 { y as i64 - 1 } else { y as i64 };
    let era: i64 = yy / 400;
    let yoe: i64 = yy - era * 400;
    let mp: i64 = (m as i64 + 9) % 12;
    let doy: i64 = (153 * mp + 2) / 5 + d as i64 - 1;
    let doe: i64 = yoe * 365 + yoe / 4 - yoe / 100 + doy;
    let days: i64 = era * 146097 + doe - 719468;
    assert!(days == n as i64);
}
