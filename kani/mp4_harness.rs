// Kani harnesses attached (on a scratch copy) as a child module of muxide::muxer::mp4, so that private items are visible.
// k_*  : complete over the stated domain (loop-free or loops bounded by type width)
// kb_* : BOUNDED stand-ins for contracts that unit `layout` assumes (bound stated per harness)
use super::*;

/// test-only window onto the queued samples (used by the API-level harnesses; never compiled into the library)
pub(crate) fn peek_video<W: std::io::Write>(w: &Mp4Writer<W>, i: usize) -> Option<(u64, u64, bool, usize)> {
    w.video_samples.get(i).map(|s| (s.pts, s.dts, s.is_keyframe, s.data.len()))
}
pub(crate) fn peek_audio<W: std::io::Write>(w: &Mp4Writer<W>, i: usize) -> Option<(u64, u64, usize)> {
    w.audio_samples.get(i).map(|s| (s.pts, s.dts, s.data.len()))
}

/// (sample rate, channels, is Opus) of the audio track registered with the writer, if any
pub(crate) fn peek_audio_cfg<W: std::io::Write>(w: &Mp4Writer<W>) -> Option<(u32, u16, bool)> {
    w.audio_track.as_ref().map(|t| (t.sample_rate, t.channels, matches!(t.codec, AudioCodec::Opus)))
}

fn stub_inv(condition: bool, _message: &str, _context: Option<&str>) {
    assert!(condition, "assert_invariant! violated");
}

/// C07: AudioSpecificConfig for all u32 x u16: AOT 2, frequency index per the ISO table for the 13 standard rates, channel nibble.
#[kani::proof]
fn k_asc() {
    let rate: u32 = kani::any();
    let ch: u16 = kani::any();
    let a = build_audio_specific_config(rate, ch);
    let bits = ((a[0] as u16) << 8) | a[1] as u16;
    assert!(bits >> 11 == 2);                                  // audioObjectType = 2 (AAC LC)
    let idx = (bits >> 7) & 0x0f;
    let table: [u32; 13] = [96000, 88200, 64000, 48000, 44100, 32000, 24000, 22050, 16000, 12000, 11025, 8000, 7350];
    let mut i = 0;
    while i < 13 {
        if rate == table[i] { assert!(idx as usize == i); }
        i += 1;
    }
    assert!(idx <= 12);
    if ch <= 15 { assert!((bits >> 3) & 0x0f == ch); }
    assert!(bits & 0x07 == 0);                                  // frameLengthFlag, dependsOnCoreCoder, extensionFlag = 0
}

/// C18: ISO-639-2 packing: for all 26^3 lower-case codes the three 5-bit fields + 0x60 give the letters back; pad bit 0.
#[kani::proof]
#[kani::unwind(5)]
fn k_lang() {
    let a: u8 = kani::any();
    let b: u8 = kani::any();
    let c: u8 = kani::any();
    kani::assume(a >= b'a' && a <= b'z' && b >= b'a' && b <= b'z' && c >= b'a' && c <= b'z');
    let bytes = [a, b, c];
    let s = core::str::from_utf8(&bytes).unwrap();
    let p = encode_language_code(s);
    let v = ((p[0] as u16) << 8) | p[1] as u16;
    assert!(v >> 15 == 0);
    assert!(((v >> 10) & 0x1f) as u8 + 0x60 == a);
    assert!(((v >> 5) & 0x1f) as u8 + 0x60 == b);
    assert!((v & 0x1f) as u8 + 0x60 == c);
}
#[kani::proof]
#[kani::unwind(5)]
fn k_lang_und() {
    let p = encode_language_code("und");
    assert!(p == [0x55, 0xc4]);
}

/// BOUNDED (every valid UTF-8 string of at most 5 bytes - ASCII, 2-, 3- and 4-byte characters, any case, any length 0..5): the language
/// packer never panics (C12) and always yields a two-byte value with a clear pad bit.
#[kani::proof]
#[kani::unwind(8)]
fn kb_lang_any_utf8() {
    let bytes: [u8; 5] = kani::any();
    let n: usize = kani::any();
    kani::assume(n <= 5);
    if let Ok(s) = core::str::from_utf8(&bytes[..n]) {
        let p = encode_language_code(s);
        assert!(p[0] & 0x80 == 0);
    }
}

fn any_sample() -> SampleInfo {
    // payload of 1 or 2 symbolic bytes (from_samples only looks at the length)
    let mut data = Vec::new();
    data.push(kani::any());
    if kani::any() { data.push(kani::any()); }
    SampleInfo { pts: kani::any(), dts: kani::any(), data, is_keyframe: kani::any(), duration: kani::any() }
}

fn check_from_samples(n: usize) {
    let mut samples: Vec<SampleInfo> = Vec::new();
    if n >= 1 { samples.push(any_sample()); }
    if n >= 2 { samples.push(any_sample()); }
    if n >= 3 { samples.push(any_sample()); }
    let fallback: Option<u32> = kani::any();
    let spc: u32 = kani::any();
    let o0: u32 = kani::any();
    let o1: u32 = kani::any();
    let two: bool = kani::any();
    let mut offs: Vec<u32> = Vec::new();
    offs.push(o0);
    if two { offs.push(o1); }
    let t = SampleTables::from_samples(&samples, offs, spc, fallback);
    assert!(t.samples_per_chunk == spc);
    assert!(t.chunk_offsets.len() == if two { 2 } else { 1 } && t.chunk_offsets[0] == o0);
    if two { assert!(t.chunk_offsets[1] == o1); }
    assert!(t.durations.len() == n && t.sizes.len() == n && t.cts_offsets.len() == n);
    let mut k = 0;
    let mut nkey = 0usize;
    let mut any_cts = false;
    while k < n {
        let s = &samples[k];
        let want = match s.duration { Some(d) => d, None => if k == n - 1 { fallback.unwrap_or(1) } else { 1 } };
        assert!(t.durations[k] == want);
        assert!(t.sizes[k] as usize == s.data.len());
        // composition offset: low 32 bits of the wrapping difference; exact whenever it fits (C16 exactness is claimed only then)
        let diff = s.pts as i128 - s.dts as i128;
        if diff >= i32::MIN as i128 && diff <= i32::MAX as i128 { assert!(t.cts_offsets[k] as i128 == diff); }
        assert!(t.cts_offsets[k] == s.pts.wrapping_sub(s.dts) as i32);
        if t.cts_offsets[k] != 0 { any_cts = true; }
        if s.is_keyframe { assert!(nkey < t.keyframes.len() && t.keyframes[nkey] as usize == k + 1); nkey += 1; }
        k += 1;
    }
    assert!(t.keyframes.len() == nkey);
    assert!(t.has_bframes == any_cts);
    core::mem::forget(t);
    core::mem::forget(samples);
}
/// BOUNDED (exactly 0, 1, 2, 3 samples; payload 1..2 bytes; pts, dts, key flags, durations, fallback, offsets fully symbolic):
/// the contract `tables_are` that unit layout assumes for SampleTables::from_samples.
#[kani::proof]
#[kani::unwind(5)]
fn kb_from_samples_0() { check_from_samples(0); }
#[kani::proof]
#[kani::unwind(5)]
fn kb_from_samples_1() { check_from_samples(1); }
#[kani::proof]
#[kani::unwind(5)]
fn kb_from_samples_2() { check_from_samples(2); }
#[kani::proof]
#[kani::unwind(5)]
fn kb_from_samples_3() { check_from_samples(3); }

/// BOUNDED (n <= 4): total_duration is the u64 sum of the durations.
#[kani::proof]
#[kani::unwind(6)]
fn kb_total_duration() {
    let n: usize = kani::any();
    kani::assume(n <= 4);
    let mut d: Vec<u32> = Vec::new();
    let mut sum: u64 = 0;
    let mut i = 0;
    while i < n { let x: u32 = kani::any(); d.push(x); sum += x as u64; i += 1; }
    let t = SampleTables { durations: d, sizes: Vec::new(), keyframes: Vec::new(), chunk_offsets: Vec::new(), samples_per_chunk: 1, cts_offsets: Vec::new(), has_bframes: false };
    assert!(t.total_duration() == sum);
}

/// BOUNDED (n <= 3): total_duration_fits(samples, last) is exactly "the durations the tables will carry sum to at most u32::MAX".
#[kani::proof]
#[kani::unwind(5)]
fn kb_total_duration_fits() {
    let n: usize = kani::any();
    kani::assume(n <= 3);
    let last: Option<u32> = kani::any();
    let mut v: Vec<SampleInfo> = Vec::new();
    let mut sum: u128 = 0;
    let mut i = 0;
    while i < n {
        let d: Option<u32> = kani::any();
        let eff: u32 = match d { Some(x) => x, None => if i + 1 == n { match last { Some(l) => l, None => 1 } } else { 1 } };
        sum += eff as u128;
        v.push(SampleInfo { pts: kani::any(), dts: kani::any(), data: Vec::new(), is_keyframe: false, duration: d });
        i += 1;
    }
    let r = Mp4Writer::<Vec<u8>>::total_duration_fits(&v, last);
    assert!(r == (sum <= u32::MAX as u128));
}

fn check_schedule(nv: usize, na: usize) {
    let mut w: Mp4Writer<Vec<u8>> = Mp4Writer::new(Vec::new(), VideoCodec::H264);
    let mut i = 0;
    while i < nv {
        let s = SampleInfo { pts: kani::any(), dts: kani::any(), data: Vec::new(), is_keyframe: false, duration: None };
        if i > 0 { kani::assume(s.dts > w.video_samples[i - 1].dts); }
        w.video_samples.push(s);
        i += 1;
    }
    let mut j = 0;
    while j < na {
        let p: u64 = kani::any();
        let s = SampleInfo { pts: p, dts: p, data: Vec::new(), is_keyframe: false, duration: None };
        if j > 0 { kani::assume(s.dts >= w.audio_samples[j - 1].dts); }
        w.audio_samples.push(s);
        j += 1;
    }
    let s = w.compute_interleave_schedule();
    assert!(s.len() == nv + na);
    let mut vc = 0usize;
    let mut ac = 0usize;
    let mut k = 0;
    while k < s.len() {
        let (key, kind, idx) = s[k];
        match kind {
            TrackKind::Video => { assert!(idx == vc); assert!(key == w.video_samples[idx].dts); vc += 1; }
            TrackKind::Audio => { assert!(idx == ac); assert!(key == w.audio_samples[idx].dts); ac += 1; }
        }
        if k > 0 {
            let (pk, pkind, _) = s[k - 1];
            assert!(pk < key || (pk == key && (matches!(pkind, TrackKind::Video) || matches!(kind, TrackKind::Audio))));
        }
        k += 1;
    }
    assert!(vc == nv && ac == na);
    core::mem::forget(s);
    core::mem::forget(w);
}
/// BOUNDED (exactly nv video + na audio samples for the listed small counts; all u64 timestamps under the writer invariant:
/// video DTS strictly increasing, audio DTS == PTS non-decreasing): the schedule contract that unit layout assumes (C15, C01):
/// permutation, per-track index order, merge by decode time with video first on ties.
#[kani::proof]
#[kani::unwind(6)]
fn kb_schedule_1v1a() { check_schedule(1, 1); }
#[kani::proof]
#[kani::unwind(6)]
fn kb_schedule_2v1a() { check_schedule(2, 1); }
#[kani::proof]
#[kani::unwind(6)]
fn kb_schedule_1v2a() { check_schedule(1, 2); }
#[kani::proof]
#[kani::unwind(6)]
fn kb_schedule_2v2a() { check_schedule(2, 2); }

/// BOUNDED (days below 1500 = 1970-01-01 .. 1974-02-08, includes the leap day 1972-02-29): days_to_ymd returns a valid calendar date whose day number, computed by an
/// independent civil-date formula (days_from_civil, Hinnant), is the input.
#[kani::proof]
#[kani::unwind(14)]
fn kb_days_to_ymd() {
    let n: u64 = kani::any();
    kani::assume(n < 1500);
    let (y, m, d) = days_to_ymd(n);
    assert!(y >= 1970 && y <= 1974 && m >= 1 && m <= 12 && d >= 1 && d <= 31);
    // days_from_civil
    let yy: i64 = if m <= 2 { y as i64 - 1 } else { y as i64 };
    let era: i64 = yy / 400;
    let yoe: i64 = yy - era * 400;
    let mp: i64 = (m as i64 + 9) % 12;
    let doy: i64 = (153 * mp + 2) / 5 + d as i64 - 1;
    let doe: i64 = yoe * 365 + yoe / 4 - yoe / 100 + doy;
    let days: i64 = era * 146097 + doe - 719468;
    assert!(days == n as i64);
}

/// stand-in for the movie-header builder in the harness below (the real one is proved in units boxes_leaf / boxes_tree): a 16-byte box
/// whose payload records how many video samples and chunk offsets it was given
pub(crate) fn stub_moov(_video: &Mp4VideoTrack, video_tables: &SampleTables, _audio: Option<(&Mp4AudioTrack, &SampleTables)>,
             _video_config: &VideoConfig, _metadata: Option<&Metadata>) -> Vec<u8> {
    let mut v: Vec<u8> = Vec::new();
    v.extend_from_slice(&16u32.to_be_bytes());
    v.extend_from_slice(b"moov");
    v.extend_from_slice(&(video_tables.sizes.len() as u32).to_be_bytes());
    v.extend_from_slice(&(if video_tables.chunk_offsets.is_empty() { 0 } else { video_tables.chunk_offsets[0] }).to_be_bytes());
    v
}
fn rd32(b: &[u8], o: usize) -> usize { ((b[o] as usize) << 24) | ((b[o + 1] as usize) << 16) | ((b[o + 2] as usize) << 8) | (b[o + 3] as usize) }
const K_VP9_KEY: [u8; 10] = [0x49, 0x83, 0x42, 0x00, 0x00, 0x10, 0x10, 0x00, 0x00, 0x00];
const K_VP9_DELTA: [u8; 10] = [0x49, 0x83, 0x42, 0x10, 0x00, 0x10, 0x10, 0x00, 0x00, 0x00];

/// BOUNDED end-to-end on the unmodified writer (video-only VP9; a REJECTED first call - delta frame before any keyframe -, then one
/// keyframe at any u64 time; both layouts; build_moov_box stubbed): the finished file is ftyp, then
/// mdat and moov in the order the layout prescribes, the box sizes tile the file, the mdat header declares exactly the accepted
/// payload bytes (a rejected call contributes nothing), and the first chunk offset points at the first payload byte.
#[kani::proof]
#[kani::unwind(6)]
#[kani::stub(crate::invariant_ppt::__assert_invariant_impl, stub_inv)]
#[kani::stub(build_moov_box, stub_moov)]
fn kb_finalize_tiling() {
    let fast: bool = kani::any();
    let mut w: Mp4Writer<Vec<u8>> = Mp4Writer::new(Vec::new(), VideoCodec::Vp9);
    match w.write_video_sample(0, &K_VP9_DELTA, false) { Ok(()) => assert!(false), Err(e) => core::mem::forget(e) }
    let t0: u64 = kani::any();
    assert!(w.write_video_sample(t0, &K_VP9_KEY, true).is_ok());
    let n = 1usize;
    let video = Mp4VideoTrack { width: 16, height: 16 };
    match w.finalize(&video, None, fast) { Ok(()) => {}, Err(e) => { core::mem::forget(e); assert!(false); } }
    let out = &w.writer;
    let payload = 10 * n;
    assert!(out.len() == 24 + 8 + payload + 16);
    assert!(rd32(out, 0) == 24 && out[4] == b'f' && out[5] == b't' && out[6] == b'y' && out[7] == b'p');
    let (mdat_at, moov_at) = if fast { (24 + 16, 24) } else { (24, 24 + 8 + payload) };
    assert!(rd32(out, mdat_at) == 8 + payload && out[mdat_at + 4] == b'm' && out[mdat_at + 5] == b'd' && out[mdat_at + 6] == b'a' && out[mdat_at + 7] == b't');
    assert!(rd32(out, moov_at) == 16 && out[moov_at + 4] == b'm' && out[moov_at + 5] == b'o' && out[moov_at + 6] == b'o' && out[moov_at + 7] == b'v');
    assert!(rd32(out, moov_at + 8) == n);                       // the tables describe exactly the accepted samples
    assert!(rd32(out, moov_at + 12) == mdat_at + 8);            // first chunk offset -> first payload byte
    assert!(out[mdat_at + 8] == K_VP9_KEY[0] && out[mdat_at + 8 + 3] == K_VP9_KEY[3]);
    if n == 2 { assert!(out[mdat_at + 18 + 3] == K_VP9_DELTA[3]); }
    core::mem::forget(w);
}

/// a sink that follows a script: per write call it reports Interrupted, accepts one byte, accepts everything, or FAILS (WouldBlock)
struct ScriptSink { got: Vec<u8>, script: [u8; 4], pos: usize, failed: bool }
impl std::io::Write for ScriptSink {
    fn write(&mut self, buf: &[u8]) -> std::io::Result<usize> {
        let a = if self.pos < 4 { self.script[self.pos] % 4 } else { 2 };
        self.pos += 1;
        if a == 0 { return Err(std::io::Error::from(std::io::ErrorKind::Interrupted)); }
        if a == 3 { self.failed = true; return Err(std::io::Error::from(std::io::ErrorKind::WouldBlock)); }
        if a == 1 && !buf.is_empty() { self.got.push(buf[0]); return Ok(1); }
        self.got.extend_from_slice(buf);
        Ok(buf.len())
    }
    fn flush(&mut self) -> std::io::Result<()> { Ok(()) }
}
/// BOUNDED (a 3-byte buffer, every schedule of up to 4 Interrupted / one-byte / full / failing results): the one function through which
/// muxide writes either delivers the whole buffer, reports success and counts exactly the buffer length - short and interrupted writes
/// are invisible - or, when a write call fails, reports the error and leaves a PREFIX of the buffer in the sink (nothing is re-sent).
#[kani::proof]
#[kani::unwind(8)]
fn kb_write_counted_retries() {
    let script: [u8; 4] = kani::any();
    let mut s = ScriptSink { got: Vec::new(), script, pos: 0, failed: false };
    let mut n: u64 = 0;
    let r = Mp4Writer::<ScriptSink>::write_counted(&mut s, &mut n, &[1u8, 2, 3]);
    let buf = [1u8, 2, 3];
    match r {
        Ok(()) => { assert!(!s.failed); assert!(s.got.len() == 3 && s.got[0] == 1 && s.got[1] == 2 && s.got[2] == 3); assert!(n == 3); }
        Err(e) => {
            core::mem::forget(e);
            assert!(s.failed);
            assert!(s.got.len() <= 3);
            let mut i = 0;
            while i < s.got.len() { assert!(s.got[i] == buf[i]); i += 1; }
        }
    }
    core::mem::forget(s);
}

/// BOUNDED (the real build_moov_box on empty sample tables, with and without an audio track, AAC or Opus): mvhd.next_track_ID exceeds
/// every track ID the movie contains (2 for video only, 3 as soon as an audio trak is emitted - also when it has no samples yet).
#[kani::proof]
#[kani::unwind(12)]
#[kani::stub(crate::invariant_ppt::__assert_invariant_impl, stub_inv)]
fn kb_moov_next_track_id() {
    let video = Mp4VideoTrack { width: 16, height: 16 };
    let vt = SampleTables::from_samples(&[], Vec::new(), 1, None);
    let at = SampleTables::from_samples(&[], Vec::new(), 1, None);
    let cfg = VideoConfig::Vp9(crate::codec::vp9::Vp9Config { width: 16, height: 16, profile: 0, bit_depth: 8, color_space: 0, transfer_function: 0, matrix_coefficients: 0, level: 0, full_range_flag: 0 });
    let with_audio: bool = kani::any();
    let audio = Mp4AudioTrack { sample_rate: 48000, channels: 2, codec: AudioCodec::Opus };
    let moov = if with_audio { build_moov_box(&video, &vt, Some((&audio, &at)), &cfg, None) } else { build_moov_box(&video, &vt, None, &cfg, None) };
    // moov header (8) + mvhd (108): next_track_ID is the last 4 bytes of mvhd
    assert!(moov.len() >= 116 && moov[12] == b'm' && moov[13] == b'v' && moov[14] == b'h' && moov[15] == b'd');
    assert!(rd32(&moov, 8) == 108);
    assert!(rd32(&moov, 8 + 104) == if with_audio { 3 } else { 2 });
    core::mem::forget(moov); core::mem::forget(cfg);
}
