// Kani harness attached (on a scratch copy) as a child module of muxide::fragmented.
use super::*;
/// C18: the fragmented copy of the ISO-639-2 packer.
#[kani::proof]
#[kani::unwind(5)]
fn k_lang_frag() {
    let a: u8 = kani::any();
    let b: u8 = kani::any();
    let c: u8 = kani::any();
    kani::assume(a >= b'a' && a <= b'z' && b >= b'a' && b <= b'z' && c >= b'a' && c <= b'z');
    let bytes = [a, b, c];
    let s = core::str::from_utf8(&bytes).unwrap();
    let p = encode_language_code(s);
    let v = ((p[0] as u16) << 8) | p[1] as u16;
    assert!(v >> 15 == 0);
    assert!(((v >> 10) & 0x1f) as u8 + 0x60 == a);
    assert!(((v >> 5) & 0x1f) as u8 + 0x60 == b);
    assert!((v & 0x1f) as u8 + 0x60 == c);
    assert!(encode_language_code("und") == [0x55, 0xc4]);
}

fn be32_at(b: &[u8], o: usize) -> u32 { ((b[o] as u32) << 24) | ((b[o + 1] as u32) << 16) | ((b[o + 2] as u32) << 8) | (b[o + 3] as u32) }
fn be64_at(b: &[u8], o: usize) -> u64 { ((be32_at(b, o) as u64) << 32) | (be32_at(b, o + 4) as u64) }
fn frag_cfg() -> FragmentConfig {
    FragmentConfig { width: 16, height: 16, timescale: 90000, fragment_duration_ms: 1000, sps: Vec::new(), pps: Vec::new(),
                     vps: None, av1_sequence_header: None, vp9_config: None }
}

/// BOUNDED, PUBLIC API ONLY (3 writes, all u64 DTS): a write is accepted iff its DTS is not below the last ACCEPTED one - a rejected
/// write must not move the reference. No private field is read, so the harness survives representation changes.
#[kani::proof]
#[kani::unwind(5)]
fn kb_frag_accept() {
    let mut m = FragmentedMuxer::new(frag_cfg());
    let mut last_ok: Option<u64> = None;
    let mut step = 0;
    while step < 3 {
        let dts: u64 = kani::any();
        let r = m.write_video(dts, dts, &[0xAB], step == 0);
        let expect_ok = match last_ok { None => true, Some(l) => dts >= l };
        match r {
            Ok(()) => { assert!(expect_ok); last_ok = Some(dts); }
            Err(e) => { assert!(!expect_ok); core::mem::forget(e); }
        }
        step += 1;
    }
    core::mem::forget(m);
}

fn check_segment(seg: &[u8], seq: u32, first_dts: u64) {
    assert!(seg.len() >= 64 && seg[4] == b'm' && seg[5] == b'o' && seg[6] == b'o' && seg[7] == b'f');
    assert!(be32_at(seg, 8) == 16 && seg[12] == b'm' && seg[13] == b'f' && seg[14] == b'h' && seg[15] == b'd');
    assert!(be32_at(seg, 20) == seq);
    let tfhd_size = be32_at(seg, 32) as usize;
    assert!(tfhd_size >= 16 && tfhd_size <= 32);
    let o = 32 + tfhd_size;
    assert!(seg[o + 4] == b't' && seg[o + 5] == b'f' && seg[o + 6] == b'd' && seg[o + 7] == b't');
    assert!(seg[o + 8] == 1);
    assert!(be64_at(seg, o + 12) == first_dts);
}

/// BOUNDED, PUBLIC API ONLY (two one-sample fragments, all u64 DTS): flush yields a segment iff something is queued, numbers the
/// segments 1, 2 and stamps each with the DTS of its first sample; a write across the flush is still checked against the last accepted DTS.
#[kani::proof]
#[kani::unwind(4)]
fn kb_frag_flush() {
    let mut m = FragmentedMuxer::new(frag_cfg());
    assert!(m.flush_segment().is_none());
    let d0: u64 = kani::any();
    assert!(m.write_video(d0, d0, &[0xAB], true).is_ok());
    match m.flush_segment() { None => assert!(false), Some(seg) => { check_segment(&seg, 1, d0); core::mem::forget(seg); } }
    assert!(m.flush_segment().is_none());
    let d1: u64 = kani::any();
    match m.write_video(d1, d1, &[0xCD], false) {
        Ok(()) => {
            assert!(d1 >= d0);
            match m.flush_segment() { None => assert!(false), Some(seg) => { check_segment(&seg, 2, d1); core::mem::forget(seg); } }
        }
        Err(e) => { assert!(d1 < d0); core::mem::forget(e); assert!(m.flush_segment().is_none()); }
    }
    core::mem::forget(m);
}
