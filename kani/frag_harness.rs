// Kani harness attached (on a scratch copy) as a child module of muxide::fragmented.
use super::*;
/// C18: the fragmented copy of the ISO-639-2 packer.
#[kani::proof]
#[kani::unwind(5)]
fn k_lang_frag() {
    let a: u8 = kani::any();
    let b: u8 = kani::any();
    let c: u8 = kani::any();
    kani::assume(a >= b'a' && a <= b'z' && b >= b'a' && b <= b'z' && c >= b'a' && c <= b'z');
    let bytes = [a, b, c];
    let s = core::str::from_utf8(&bytes).unwrap();
    let p = encode_language_code(s);
    let v = ((p[0] as u16) << 8) | p[1] as u16;
    assert!(v >> 15 == 0);
    assert!(((v >> 10) & 0x1f) as u8 + 0x60 == a);
    assert!(((v >> 5) & 0x1f) as u8 + 0x60 == b);
    assert!((v & 0x1f) as u8 + 0x60 == c);
    assert!(encode_language_code("und") == [0x55, 0xc4]);
}

/// BOUNDED (valid UTF-8 strings of at most 5 bytes): the fragmented copy of the language packer never panics.
#[kani::proof]
#[kani::unwind(8)]
fn kb_lang_frag_any_utf8() {
    let bytes: [u8; 5] = kani::any();
    let n: usize = kani::any();
    kani::assume(n <= 5);
    if let Ok(s) = core::str::from_utf8(&bytes[..n]) {
        let p = encode_language_code(s);
        assert!(p[0] & 0x80 == 0);
    }
}

fn be32_at(b: &[u8], o: usize) -> u32 { ((b[o] as u32) << 24) | ((b[o + 1] as u32) << 16) | ((b[o + 2] as u32) << 8) | (b[o + 3] as u32) }
fn be64_at(b: &[u8], o: usize) -> u64 { ((be32_at(b, o) as u64) << 32) | (be32_at(b, o + 4) as u64) }
fn frag_cfg() -> FragmentConfig {
    FragmentConfig { width: 16, height: 16, timescale: 90000, fragment_duration_ms: 1000, sps: Vec::new(), pps: Vec::new(),
                     vps: None, av1_sequence_header: None, vp9_config: None }
}

/// BOUNDED, PUBLIC API ONLY (3 writes, all u64 DTS): a write is accepted iff its DTS is not below the last ACCEPTED one - a rejected
/// write must not move the reference. No private field is read, so the harness survives representation changes.
#[kani::proof]
#[kani::unwind(5)]
fn kb_frag_accept() {
    let mut m = FragmentedMuxer::new(frag_cfg());
    let mut last_ok: Option<u64> = None;
    let mut step = 0;
    while step < 3 {
        let dts: u64 = kani::any();
        let r = m.write_video(dts, dts, &[0xAB], step == 0);
        let expect_ok = match last_ok { None => true, Some(l) => dts >= l };
        match r {
            Ok(()) => { assert!(expect_ok); last_ok = Some(dts); }
            Err(e) => { assert!(!expect_ok); core::mem::forget(e); }
        }
        step += 1;
    }
    core::mem::forget(m);
}

/// stand-in for the segment serialiser in the interleaving harness below: it records what flush_segment hands over
/// (sequence number and base decode time) in the first 12 bytes and nothing else
fn stub_media_segment(_samples: &[FragmentSample], sequence_number: u32, base_media_decode_time: u64, _timescale: u32) -> Vec<u8> {
    let mut v = Vec::new();
    v.extend_from_slice(&sequence_number.to_be_bytes());
    v.extend_from_slice(&base_media_decode_time.to_be_bytes());
    v
}

/// BOUNDED, PUBLIC API ONLY (write, write, flush, write; all u64 DTS; build_media_segment stubbed - the serialiser is proved in unit
/// frag): the monotonicity reference is the last ACCEPTED DTS and survives a flush; the flush hands over sequence number 1 and the
/// DTS of the first queued sample.
#[kani::proof]
#[kani::unwind(4)]
#[kani::stub(build_media_segment, stub_media_segment)]
fn kb_frag_flush_ref() {
    let mut m = FragmentedMuxer::new(frag_cfg());
    let d0: u64 = kani::any();
    let d1: u64 = kani::any();
    let d2: u64 = kani::any();
    assert!(m.write_video(d0, d0, &[0xAB], true).is_ok());
    let mut last = d0;
    match m.write_video(d1, d1, &[0xCD], false) {
        Ok(()) => { assert!(d1 >= d0); last = d1; }
        Err(e) => { assert!(d1 < d0); core::mem::forget(e); }
    }
    match m.flush_segment() {
        None => assert!(false),
        Some(seg) => { assert!(seg.len() == 12 && be32_at(&seg, 0) == 1 && be64_at(&seg, 4) == d0); core::mem::forget(seg); }
    }
    match m.write_video(d2, d2, &[0xEF], false) {
        Ok(()) => assert!(d2 >= last),
        Err(e) => { assert!(d2 < last); core::mem::forget(e); }
    }
    core::mem::forget(m);
}

/// BOUNDED (the real build_media_segment on ONE 1-byte sample, all u64 pts/dts/base times, all u32 sequence numbers): the trun's
/// data_offset points at the first payload byte (moof size + 8) and the mdat holds the payload - whatever bytes the timestamps contain.
#[kani::proof]
#[kani::unwind(130)]
fn kb_media_segment_one() {
    let s = FragmentSample { pts: kani::any(), dts: kani::any(), data: vec![0xAB], is_sync: kani::any() };
    let seq: u32 = kani::any();
    let base: u64 = kani::any();
    let samples = [s];
    let seg = build_media_segment(&samples, seq, base, 90000);
    let moof = be32_at(&seg, 0) as usize;
    assert!(seg[4] == b'm' && seg[5] == b'o' && seg[6] == b'o' && seg[7] == b'f');
    assert!(seg.len() == moof + 9 && be32_at(&seg, moof) == 9 && seg[moof + 8] == 0xAB);
    // moof(8) mfhd(16) traf(8) tfhd(n) tfdt(20) trun: header(8) version/flags(4) sample_count(4) data_offset(4)
    let tfhd = be32_at(&seg, 32) as usize;
    let trun = 32 + tfhd + 20;
    assert!(seg[trun + 4] == b't' && seg[trun + 5] == b'r' && seg[trun + 6] == b'u' && seg[trun + 7] == b'n');
    assert!(be32_at(&seg, trun + 12) == 1);
    assert!(be32_at(&seg, trun + 16) as usize == moof + 8);
    core::mem::forget(seg); core::mem::forget(samples);
}
