// Kani harness attached (on a scratch copy) as a child module of muxide::fragmented.
use super::*;
/// C18: the fragmented copy of the ISO-639-2 packer.
#[kani::proof]
#[kani::unwind(5)]
fn k_lang_frag() {
    let a: u8 = kani::any();
    let b: u8 = kani::any();
    let c: u8 = kani::any();
    kani::assume(a >= b'a' && a <= b'z' && b >= b'a' && b <= b'z' && c >= b'a' && c <= b'z');
    let bytes = [a, b, c];
    let s = core::str::from_utf8(&bytes).unwrap();
    let p = encode_language_code(s);
    let v = ((p[0] as u16) << 8) | p[1] as u16;
    assert!(v >> 15 == 0);
    assert!(((v >> 10) & 0x1f) as u8 + 0x60 == a);
    assert!(((v >> 5) & 0x1f) as u8 + 0x60 == b);
    assert!((v & 0x1f) as u8 + 0x60 == c);
    assert!(encode_language_code("und") == [0x55, 0xc4]);
}
