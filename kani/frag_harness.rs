// Kani harness attached (on a scratch copy) as a child module of muxide::fragmented.
use super::*;
/// C18: the fragmented copy of the ISO-639-2 packer.
#[kani::proof]
#[kani::unwind(5)]
fn k_lang_frag() {
    let a: u8 = kani::any();
    let b: u8 = kani::any();
    let c: u8 = kani::any();
    kani::assume(a >= b'a' && a <= b'z' && b >= b'a' && b <= b'z' && c >= b'a' && c <= b'z');
    let bytes = [a, b, c];
    let s = core::str::from_utf8(&bytes).unwrap();
    let p = encode_language_code(s);
    let v = ((p[0] as u16) << 8) | p[1] as u16;
    assert!(v >> 15 == 0);
    assert!(((v >> 10) & 0x1f) as u8 + 0x60 == a);
    assert!(((v >> 5) & 0x1f) as u8 + 0x60 == b);
    assert!((v & 0x1f) as u8 + 0x60 == c);
    assert!(encode_language_code("und") == [0x55, 0xc4]);
}

/// BOUNDED (histories of 3 writes with an optional flush after each; all u64 DTS/PTS, 1-byte payloads): the unmodified
/// FragmentedMuxer accepts a write iff its DTS is not below the last ACCEPTED one, a rejected write changes nothing observable,
/// flush returns a segment iff something is queued, empties the queue, counts 1, 2, 3 ... and stamps the first queued DTS.
#[kani::proof]
#[kani::unwind(8)]
fn kb_frag_history() {
    let cfg = FragmentConfig { width: 16, height: 16, timescale: 90000, fragment_duration_ms: 1000, sps: Vec::new(), pps: Vec::new(),
                               vps: None, av1_sequence_header: None, vp9_config: None };
    let mut m = FragmentedMuxer::new(cfg);
    let mut last_ok: Option<u64> = None;       // model: DTS of the last accepted write
    let mut queued: usize = 0;                 // model: accepted writes since the last flush
    let mut first_q: u64 = 0;                  // model: DTS of the first queued write
    let mut seq: u32 = 1;
    let mut step = 0;
    while step < 3 {
        let dts: u64 = kani::any();
        let pts: u64 = kani::any();
        let sync: bool = kani::any();
        let r = m.write_video(pts, dts, &[0xAB], sync);
        let expect_ok = match last_ok { None => true, Some(l) => dts >= l };
        match r {
            Ok(()) => {
                assert!(expect_ok);
                if queued == 0 { first_q = dts; }
                queued += 1;
                last_ok = Some(dts);
                let s = &m.samples[queued - 1];
                assert!(s.pts == pts && s.dts == dts && s.is_sync == sync && s.data.len() == 1 && s.data[0] == 0xAB);
            }
            Err(e) => { assert!(!expect_ok); core::mem::forget(e); }
        }
        assert!(m.samples.len() == queued);
        assert!(m.last_dts == last_ok);
        assert!(m.sequence_number == seq);
        let do_flush: bool = kani::any();
        if do_flush {
            let seg = m.flush_segment();
            if queued == 0 { assert!(seg.is_none()); assert!(m.sequence_number == seq); }
            else {
                assert!(seg.is_some());
                assert!(m.base_media_decode_time == first_q);
                seq += 1;
                assert!(m.sequence_number == seq);
                queued = 0;
            }
            assert!(m.samples.len() == 0);
            assert!(m.last_dts == last_ok);
            core::mem::forget(seg);
        }
        step += 1;
    }
    core::mem::forget(m);
}

fn be32_at(b: &[u8], o: usize) -> u32 { ((b[o] as u32) << 24) | ((b[o + 1] as u32) << 16) | ((b[o + 2] as u32) << 8) | (b[o + 3] as u32) }
fn be64_at(b: &[u8], o: usize) -> u64 { ((be32_at(b, o) as u64) << 32) | (be32_at(b, o + 4) as u64) }

/// BOUNDED, PUBLIC API ONLY (no private field is read, so the harness survives representation changes): 3 writes with an optional
/// flush after each. Accept/reject decisions follow the last ACCEPTED DTS; a flush yields a segment iff something was queued; the
/// segment's mfhd sequence numbers count 1, 2, 3 ... and its tfdt is the DTS of the first write queued since the previous flush.
#[kani::proof]
#[kani::unwind(8)]
fn kb_frag_api() {
    let cfg = FragmentConfig { width: 16, height: 16, timescale: 90000, fragment_duration_ms: 1000, sps: Vec::new(), pps: Vec::new(),
                               vps: None, av1_sequence_header: None, vp9_config: None };
    let mut m = FragmentedMuxer::new(cfg);
    let mut last_ok: Option<u64> = None;
    let mut queued: usize = 0;
    let mut first_q: u64 = 0;
    let mut seq: u32 = 1;
    let mut step = 0;
    while step < 3 {
        let dts: u64 = kani::any();
        let r = m.write_video(dts, dts, &[0xAB], step == 0);
        let expect_ok = match last_ok { None => true, Some(l) => dts >= l };
        match r {
            Ok(()) => { assert!(expect_ok); if queued == 0 { first_q = dts; } queued += 1; last_ok = Some(dts); }
            Err(e) => { assert!(!expect_ok); core::mem::forget(e); }
        }
        let do_flush: bool = kani::any();
        if do_flush {
            match m.flush_segment() {
                None => assert!(queued == 0),
                Some(seg) => {
                    assert!(queued > 0);
                    assert!(seg.len() >= 64 && seg[4] == b'm' && seg[5] == b'o' && seg[6] == b'o' && seg[7] == b'f');
                    assert!(be32_at(&seg, 8) == 16 && seg[12] == b'm' && seg[13] == b'f' && seg[14] == b'h' && seg[15] == b'd');
                    assert!(be32_at(&seg, 20) == seq);
                    let tfhd_size = be32_at(&seg, 32) as usize;
                    assert!(tfhd_size >= 16 && tfhd_size <= 32);
                    let o = 32 + tfhd_size;
                    assert!(seg[o + 4] == b't' && seg[o + 5] == b'f' && seg[o + 6] == b'd' && seg[o + 7] == b't');
                    assert!(seg[o + 8] == 1);
                    assert!(be64_at(&seg, o + 12) == first_q);
                    seq += 1;
                    queued = 0;
                    core::mem::forget(seg);
                }
            }
        }
        step += 1;
    }
    core::mem::forget(m);
}
