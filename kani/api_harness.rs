// Kani harnesses attached (on a scratch copy) as a child module of muxide::api.
use super::*;
use crate::muxer::mp4::MEDIA_TIMESCALE as TS;

fn stub_inv(condition: bool, _message: &str, _context: Option<&str>) {
    assert!(condition, "assert_invariant! violated");
}

#[inline(never)]
fn ticks(x: f64) -> u64 { (x * TS as f64).round() as u64 }   // the expression of api.rs write_video / write_video_with_dts / write_audio

/// C03 (complete): below 2^53 ticks the conversion is the nearest integer to x * 90000 (|ticks - x*90000| <= 1/2), i.e. each absolute
/// timestamp is rounded independently - no accumulated drift.
#[kani::proof]
fn k_ticks_nearest() {
    let x: f64 = kani::any();
    kani::assume(x.is_finite() && x >= 0.0 && x * 90000.0 < 9007199254740992.0);
    let t = ticks(x) as f64;
    let exact = x * 90000.0;
    assert!(t - exact <= 0.5 && exact - t <= 0.5);
}
const VP9_KEY: [u8; 10] = [0x49, 0x83, 0x42, 0x00, 0x00, 0x10, 0x10, 0x00, 0x00, 0x00];
const VP9_DELTA: [u8; 10] = [0x49, 0x83, 0x42, 0x10, 0x00, 0x10, 0x10, 0x00, 0x00, 0x00];

/// C03 (complete over ALL f64 pts/dts bit patterns, on the real write_video_with_dts): an accepted frame is queued with
/// presentation and decode ticks equal to the independently rounded absolute timestamps, and anything else is rejected without a trace.
#[kani::proof]
#[kani::unwind(12)]
#[kani::stub(crate::invariant_ppt::__assert_invariant_impl, stub_inv)]
fn k_api_ticks_video() {
    let mut m = muxer(VideoCodec::Vp9);
    let pts: f64 = kani::any();
    let dts: f64 = kani::any();
    let r = m.write_video_with_dts(pts, dts, &VP9_KEY, true);
    let q = crate::muxer::mp4::verif_kani::peek_video(&m.writer, 0);
    match r {
        Ok(()) => {
            assert!(pts.is_finite() && pts >= 0.0 && dts.is_finite() && dts >= 0.0);
            let (p, d, key, len) = q.unwrap();
            assert!(p == (pts * 90000.0).round() as u64);
            assert!(d == (dts * 90000.0).round() as u64);
            assert!(key && len == VP9_KEY.len());
        }
        Err(e) => { assert!(q.is_none()); core::mem::forget(e); }
    }
    core::mem::forget(m);
}
/// C03 (complete over all f64 second frame times): the second frame's ticks and the first frame's duration (= exact tick distance).
#[kani::proof]
#[kani::unwind(12)]
#[kani::stub(crate::invariant_ppt::__assert_invariant_impl, stub_inv)]
fn k_api_ticks_second_frame() {
    let mut m = muxer(VideoCodec::Vp9);
    assert!(m.write_video(0.0, &VP9_KEY, true).is_ok());
    let t: f64 = kani::any();
    let r = m.write_video(t, &VP9_DELTA, false);
    let q = crate::muxer::mp4::verif_kani::peek_video(&m.writer, 1);
    match r {
        Ok(()) => {
            let (p, d, key, _) = q.unwrap();
            assert!(p == (t * 90000.0).round() as u64 && d == p && !key);
            assert!(p > 0 && p <= u32::MAX as u64);
        }
        Err(e) => { assert!(q.is_none()); core::mem::forget(e); }
    }
    core::mem::forget(m);
}

const OPUS_PKT: [u8; 8] = [0x24, 0xc0, 0x00, 0x01, 0x02, 0x03, 0x04, 0x05];
/// C03/C09/C15 (complete over ALL f64 bit patterns of the first video time and the first audio time, on the real write_audio):
/// an accepted audio frame is queued with the independently rounded ABSOLUTE timestamp (same time origin as the video track), never
/// before the first video frame; anything else is rejected without a trace.
#[kani::proof]
#[kani::unwind(12)]
#[kani::stub(crate::invariant_ppt::__assert_invariant_impl, stub_inv)]
fn k_api_ticks_audio() {
    let mut m = MuxerBuilder::new(Vec::new()).video(VideoCodec::Vp9, 16, 16, 30.0).audio(AudioCodec::Opus, 48000, 2).build().ok().unwrap();
    let v0: f64 = kani::any();
    let a: f64 = kani::any();
    match m.write_video(v0, &VP9_KEY, true) {
        Ok(()) => {}
        Err(e) => { core::mem::forget(e); core::mem::forget(m); return; }
    }
    let r = m.write_audio(a, &OPUS_PKT);
    let q = crate::muxer::mp4::verif_kani::peek_audio(&m.writer, 0);
    match r {
        Ok(()) => {
            let (p, d, len) = q.unwrap();
            assert!(a.is_finite() && a >= v0);
            assert!(p == (a * 90000.0).round() as u64 && d == p && len == OPUS_PKT.len());
        }
        Err(e) => { assert!(q.is_none()); core::mem::forget(e); }
    }
    core::mem::forget(m);
}

/// C17: `Muxer<W>: Send` whenever `W: Send` (and Sync likewise), for ALL W - decided by rustc's trait solver when this module compiles.
fn _is_send<T: Send>() {}
fn _is_sync<T: Sync>() {}
fn _muxer_send<W: std::io::Write + Send>() { _is_send::<Muxer<W>>(); _is_send::<MuxerBuilder<W>>(); }
fn _muxer_sync<W: std::io::Write + Sync>() { _is_sync::<Muxer<W>>(); _is_sync::<MuxerBuilder<W>>(); }
fn _frag_send_sync() { _is_send::<crate::fragmented::FragmentedMuxer>(); _is_sync::<crate::fragmented::FragmentedMuxer>(); }
#[kani::proof]
fn k_send_sync() {
    // the obligation is the type check of the four functions above; reaching this point means it was discharged
    _frag_send_sync();
}

fn muxer(codec: VideoCodec) -> Muxer<Vec<u8>> {
    MuxerBuilder::new(Vec::new()).video(codec, 16, 16, 30.0).build().ok().unwrap()
}
fn sym_bytes(n: usize) -> Vec<u8> {
    let mut v = Vec::new();
    let mut i = 0;
    while i < n { v.push(kani::any()); i += 1; }
    v
}
fn h264_has_idr_ref(d: &[u8]) -> bool { has_unit_ref(d, false) }
/// H.265: nal_unit_type = bits 1..6 of the first header byte; IDR_W_RADL 19, IDR_N_LP 20, CRA 21
fn h265_has_irap_ref(d: &[u8]) -> bool { has_unit_ref(d, true) }
fn has_unit_ref(d: &[u8], hevc: bool) -> bool {
    // independent scan: a non-empty unit after a 3/4-byte start code whose first byte has the wanted nal_unit_type
    let mut i = 0;
    let mut found = false;
    while i + 3 <= d.len() {
        if d[i] == 0 && d[i + 1] == 0 && d[i + 2] == 1 {
            let s = i + 3;
            // unit is non-empty unless another start code begins right here or the data ends
            let empty = s >= d.len()
                || (s + 3 <= d.len() && d[s] == 0 && d[s + 1] == 0 && d[s + 2] == 1)
                || (s + 4 <= d.len() && d[s] == 0 && d[s + 1] == 0 && d[s + 2] == 0 && d[s + 3] == 1);
            if !empty && !hevc && (d[s] & 0x1f) == 5 { found = true; }
            if !empty && hevc { let t = (d[s] >> 1) & 0x3f; if t >= 19 && t <= 21 { found = true; } }
        }
        i += 1;
    }
    found
}
/// BOUNDED (frames of exactly 1..=6 symbolic bytes): the keyframe probe of encode_video never panics (C12) and, for H.264,
/// reports a keyframe iff an IDR unit is present (C04, C17: encode_video == write_video with that flag).
#[kani::proof]
#[kani::unwind(9)]
#[kani::stub(crate::invariant_ppt::__assert_invariant_impl, stub_inv)]
fn kb_is_keyframe_h264() {
    let m = muxer(VideoCodec::H264);
    let n: usize = kani::any();
    kani::assume(n >= 1 && n <= 6);
    let d = sym_bytes(n);
    let k = m.is_keyframe(&d);
    assert!(k == h264_has_idr_ref(&d));
    core::mem::forget(m);
}
#[kani::proof]
#[kani::unwind(9)]
#[kani::stub(crate::invariant_ppt::__assert_invariant_impl, stub_inv)]
fn kb_is_keyframe_h265() {
    let m = muxer(VideoCodec::H265);
    let n: usize = kani::any();
    kani::assume(n >= 1 && n <= 6);
    let d = sym_bytes(n);
    let k = m.is_keyframe(&d);
    assert!(k == h265_has_irap_ref(&d));
    core::mem::forget(m);
}
#[kani::proof]
#[kani::unwind(9)]
#[kani::stub(crate::invariant_ppt::__assert_invariant_impl, stub_inv)]
fn kb_is_keyframe_av1_vp9() {
    let n: usize = kani::any();
    kani::assume(n >= 1 && n <= 6);
    let d = sym_bytes(n);
    let m = muxer(VideoCodec::Av1);
    let _ = m.is_keyframe(&d);
    let m2 = muxer(VideoCodec::Vp9);
    let _ = m2.is_keyframe(&d);
    core::mem::forget(m);
    core::mem::forget(m2);
}

/// C17 (complete over all arguments): builder aliases produce field-wise identical builders.
#[kani::proof]
fn k_aliases() {
    let codec = if kani::any() { VideoCodec::H264 } else { VideoCodec::Vp9 };
    let (w, h): (u32, u32) = (kani::any(), kani::any());
    let fr: f64 = kani::any();
    let a = MuxerBuilder::new(()).video(codec, w, h, fr);
    let b = MuxerBuilder::new(()).set_video_track(codec, w, h, fr);
    assert!(a.video.unwrap().0 == b.video.unwrap().0 && a.video.unwrap().1 == b.video.unwrap().1 && a.video.unwrap().2 == b.video.unwrap().2);
    assert!(a.video.unwrap().3.to_bits() == b.video.unwrap().3.to_bits());
    let ac = if kani::any() { AudioCodec::Opus } else { AudioCodec::None };
    let (sr, ch): (u32, u16) = (kani::any(), kani::any());
    let c = MuxerBuilder::new(()).audio(ac, sr, ch);
    let d = MuxerBuilder::new(()).set_audio_track(ac, sr, ch);
    assert!(c.audio == d.audio);
    let t: u64 = kani::any();
    let e = MuxerBuilder::new(()).set_create_time(t);
    let f = MuxerBuilder::new(()).with_metadata(Metadata::new().with_creation_time(t));
    assert!(e.metadata.as_ref().unwrap().creation_time == f.metadata.as_ref().unwrap().creation_time);
    assert!(e.metadata.as_ref().unwrap().title.is_none() && f.metadata.as_ref().unwrap().title.is_none());
    assert!(e.metadata.as_ref().unwrap().language.is_none() && f.metadata.as_ref().unwrap().language.is_none());
    // audio codec `None` is the same as no audio
    let cfg = MuxerConfig::new(w, h, fr).with_audio(AudioCodec::None, sr, ch);
    assert!(cfg.audio.is_none());
}

/// C18 (complete over all u64 timestamps): the individual metadata setters of the builder change exactly their own field - a title and a
/// language configured earlier survive set_create_time, a title and a creation time survive set_language.
#[kani::proof]
#[kani::unwind(6)]
fn k_metadata_setters() {
    let t: u64 = kani::any();
    let a = MuxerBuilder::new(()).with_metadata(Metadata::new().with_title("T").with_language("deu")).set_create_time(t);
    let ma = a.metadata.as_ref().unwrap();
    assert!(ma.creation_time == Some(t));
    assert!(ma.title.as_deref() == Some("T"));
    assert!(ma.language.as_deref() == Some("deu"));
    let b = MuxerBuilder::new(()).with_metadata(Metadata::new().with_title("T").with_creation_time(t)).set_language("fra");
    let mb = b.metadata.as_ref().unwrap();
    assert!(mb.creation_time == Some(t));
    assert!(mb.title.as_deref() == Some("T"));
    assert!(mb.language.as_deref() == Some("fra"));
    core::mem::forget(a); core::mem::forget(b);
}

/// C17 (complete over all u32 sample rates and u16 channel counts): building with audio codec `None` registers no audio track - neither at
/// the API level nor with the container writer (the same as never calling audio()); building with a real codec registers exactly it.
#[kani::proof]
#[kani::unwind(4)]
fn k_build_audio_none() {
    let (sr, ch): (u32, u16) = (kani::any(), kani::any());
    let a = muxer_with_audio(AudioCodec::None, sr, ch);
    assert!(a.audio_track.is_none());
    assert!(crate::muxer::mp4::verif_kani::peek_audio_cfg(&a.writer).is_none());
    core::mem::forget(a);
}
#[kani::proof]
#[kani::unwind(4)]
fn k_build_audio_opus() {
    let (sr, ch): (u32, u16) = (kani::any(), kani::any());
    let c = muxer_with_audio(AudioCodec::Opus, sr, ch);
    assert!(crate::muxer::mp4::verif_kani::peek_audio_cfg(&c.writer) == Some((sr, ch, true)));
    assert!(c.audio_track.as_ref().unwrap().sample_rate == sr && c.audio_track.as_ref().unwrap().channels == ch);
    core::mem::forget(c);
}
fn muxer_with_audio(codec: AudioCodec, sr: u32, ch: u16) -> Muxer<Vec<u8>> {
    match MuxerBuilder::new(Vec::new()).video(VideoCodec::Vp9, 16, 16, 30.0).audio(codec, sr, ch).build() {
        Ok(m) => m,
        Err(e) => { core::mem::forget(e); kani::assume(false); unreachable!() }
    }
}

// ---- BOUNDED panic-freedom of the public codec parsers on every input of up to 6 bytes (C12): these run the unmodified functions and
// ---- keep a changed tree decidable when a parser changes shape (the always-on assert_invariant! checks are real panics here)
#[kani::proof]
#[kani::unwind(10)]
#[kani::stub(crate::invariant_ppt::__assert_invariant_impl, stub_inv)]
fn kb_parsers_vp9_opus_small() {
    let n: usize = kani::any();
    kani::assume(n <= 8);
    let d = sym_bytes(n);
    let c = crate::codec::vp9::extract_vp9_config(&d);
    let k = crate::codec::vp9::is_vp9_keyframe(&d);
    let _ = crate::codec::vp9::is_valid_vp9_frame(&d);
    let _ = crate::codec::opus::is_valid_opus_packet(&d);
    let _ = crate::codec::opus::opus_packet_samples(&d);
    core::mem::forget(c); core::mem::forget(k);
}

/// C04/C09 (complete over ALL f64 bit patterns of the first frame's presentation time, a second frame's presentation time and the audio
/// time; reordered video through write_video_with_dts): audio is accepted only if it is not earlier than the FIRST ACCEPTED video
/// frame's presentation time - a later frame with a smaller PTS does not lower that gate.
#[kani::proof]
#[kani::unwind(12)]
#[kani::stub(crate::invariant_ppt::__assert_invariant_impl, stub_inv)]
fn k_api_audio_gate() {
    let mut m = MuxerBuilder::new(Vec::new()).video(VideoCodec::Vp9, 16, 16, 30.0).audio(AudioCodec::Opus, 48000, 2).build().ok().unwrap();
    let p0: f64 = kani::any();
    let p1: f64 = kani::any();
    let a: f64 = kani::any();
    match m.write_video_with_dts(p0, 0.0, &VP9_KEY, true) { Ok(()) => {}, Err(e) => { core::mem::forget(e); core::mem::forget(m); return; } }
    match m.write_video_with_dts(p1, 0.5, &VP9_DELTA, false) { Ok(()) => {}, Err(e) => { core::mem::forget(e); } }
    match m.write_audio(a, &OPUS_PKT) {
        Ok(()) => { assert!(a >= p0); }
        Err(e) => { core::mem::forget(e); }
    }
    core::mem::forget(m);
}
