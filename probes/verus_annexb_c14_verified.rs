use vstd::prelude::*;
verus! {

pub open spec fn be32(x: u32) -> Seq<u8> {
    seq![(x >> 24) as u8, (x >> 16) as u8, (x >> 8) as u8, x as u8]
}
pub trait VBe32 { fn v_be(self) -> (r: [u8; 4]); }
impl VBe32 for u32 {
    #[verifier::external_body]
    fn v_be(self) -> (r: [u8; 4])
        ensures r@ == be32(self)
    { self.to_be_bytes() }
}

pub open spec fn sc4_at(d: Seq<u8>, i: int) -> bool {
    0 <= i && i + 4 <= d.len() && d[i] == 0 && d[i+1] == 0 && d[i+2] == 0 && d[i+3] == 1
}
pub open spec fn sc3_at(d: Seq<u8>, i: int) -> bool {
    0 <= i && i + 3 <= d.len() && d[i] == 0 && d[i+1] == 0 && d[i+2] == 1
}
pub open spec fn sc_at(d: Seq<u8>, i: int) -> bool { sc4_at(d, i) || sc3_at(d, i) }
pub open spec fn sc_len(d: Seq<u8>, i: int) -> int { if sc4_at(d, i) { 4 } else { 3 } }

/// first start-code position >= from, or -1
pub open spec fn next_sc(d: Seq<u8>, from: int) -> int
    decreases d.len() - from
{
    if from < 0 || from + 3 > d.len() { -1 }
    else if sc_at(d, from) { from }
    else { next_sc(d, from + 1) }
}

/// the AVCC image of the units found from cursor `cur` on (empty units skipped)
pub open spec fn avcc_from(d: Seq<u8>, cur: int) -> Seq<u8>
    decreases d.len() - cur
{
    let p = next_sc(d, cur);
    if cur < 0 || p < 0 { Seq::empty() } else {
        let s = p + sc_len(d, p);
        let q = next_sc(d, s);
        let e = if q < 0 { d.len() as int } else { q };
        let unit = d.subrange(s, e);
        let head = if unit.len() == 0 { Seq::<u8>::empty() } else { be32(unit.len() as u32) + unit };
        if e <= cur || e > d.len() { head } else { head + avcc_from(d, e) }
    }
}

proof fn lemma_next_sc(d: Seq<u8>, from: int)
    requires 0 <= from
    ensures ({ let p = next_sc(d, from); p == -1 || (from <= p && p + 3 <= d.len() && sc_at(d, p)) }),
       next_sc(d, from) == -1 ==> forall|j: int| from <= j ==> !sc_at(d, j),
       forall|j: int| from <= j < next_sc(d, from) ==> !sc_at(d, j),
    decreases d.len() - from
{
    if from + 3 > d.len() { } else if sc_at(d, from) { } else { lemma_next_sc(d, from + 1); }
}

fn find_start_code(data: &[u8], from: usize) -> (r: Option<(usize, usize)>)
    requires data@.len() <= isize::MAX
    ensures
        match r {
            Some((pos, len)) => pos as int == next_sc(data@, from as int) && len as int == sc_len(data@, pos as int) && from <= pos && pos + len <= data@.len(),
            None => next_sc(data@, from as int) == -1,
        }
{
    if data.len() < 3 || from >= data.len() {
        proof { lemma_next_sc(data@, from as int); }
        return None;
    }

    let mut i = from;
    while i + 3 <= data.len()
        invariant from <= i, data.len() >= 3, i <= data.len(), data@.len() <= isize::MAX,
            next_sc(data@, from as int) == next_sc(data@, i as int),
        decreases data.len() - i,
    {
        // Check 4-byte start code first
        if i + 4 <= data.len()
            && data[i] == 0
            && data[i + 1] == 0
            && data[i + 2] == 0
            && data[i + 3] == 1
        {
            return Some((i, 4));
        }
        // Check 3-byte start code
        if data[i] == 0 && data[i + 1] == 0 && data[i + 2] == 1 {
            return Some((i, 3));
        }
        i += 1;
    }
    None
}

struct AnnexBNalIter<'a> {
    data: &'a [u8],
    cursor: usize,
}

impl<'a> AnnexBNalIter<'a> {
    #[inline]
    fn new(data: &'a [u8]) -> (r: Self)
        ensures r.data@ == data@, r.cursor == 0
    {
        Self { data, cursor: 0 }
    }

    fn next(&mut self) -> (r: Option<&'a [u8]>)
        requires old(self).cursor <= old(self).data@.len(), old(self).data@.len() <= isize::MAX
        ensures final(self).data@ == old(self).data@,
            final(self).cursor <= final(self).data@.len(),
            ({ let d = old(self).data@; let cur = old(self).cursor as int; let p = next_sc(d, cur);
               match r {
                 None => p == -1 && final(self).cursor == old(self).cursor,
                 Some(u) => p >= 0 && ({ let s = p + sc_len(d, p); let q = next_sc(d, s); let e = if q < 0 { d.len() as int } else { q };
                        u@ == d.subrange(s, e) && final(self).cursor == e && s <= e }),
               } }),
    {
        let (start_code_pos, start_code_len) = find_start_code(self.data, self.cursor)?;
        let nal_start = start_code_pos + start_code_len;

        // Find the next start code (or end of data)
        let nal_end = match find_start_code(self.data, nal_start) {
            Some((next_pos, _)) => next_pos,
            None => self.data.len(),
        };

        self.cursor = nal_end;
        Some(&self.data[nal_start..nal_end])
    }
}

fn annexb_to_avcc(data: &[u8]) -> (out: Vec<u8>)
    requires data@.len() <= u32::MAX, data@.len() <= isize::MAX
    ensures out@ == (if avcc_from(data@, 0).len() == 0 && data@.len() > 0 { be32(data@.len() as u32) + data@ } else { avcc_from(data@, 0) })
{
    let mut out = Vec::new();

    let mut it = AnnexBNalIter::new(data);
    loop
        invariant it.data@ == data@, it.cursor <= data@.len(), data@.len() <= u32::MAX, data@.len() <= isize::MAX,
            out@ + avcc_from(data@, it.cursor as int) == avcc_from(data@, 0),
        ensures next_sc(data@, it.cursor as int) == -1,
        decreases data@.len() - it.cursor + (if next_sc(data@, it.cursor as int) >= 0 { 1int } else { 0int }),
    {
        let ghost cur = it.cursor as int;
        let ghost out0 = out@;
        match it.next() {
            None => { break; }
            Some(nal) => {
        proof {
            lemma_next_sc(data@, cur);
            let p = next_sc(data@, cur);
            lemma_next_sc(data@, p + sc_len(data@, p));
        }
        if nal.is_empty() {
            proof { assert(out@ + avcc_from(data@, it.cursor as int) == avcc_from(data@, 0)); }
            continue;
        }
        let len = nal.len() as u32;
        out.extend_from_slice(&len.v_be());
        out.extend_from_slice(nal);
        proof {
            assert(out@ =~= out0 + (be32(nal@.len() as u32) + nal@));
            assert(out@ + avcc_from(data@, it.cursor as int) =~= out0 + ((be32(nal@.len() as u32) + nal@) + avcc_from(data@, it.cursor as int)));
        }
            }
        }
    }

    proof { assert(avcc_from(data@, it.cursor as int) =~= Seq::<u8>::empty()); assert(out@ =~= avcc_from(data@, 0)); }
    // Fallback: if no start codes found, treat entire input as single NAL
    if out.is_empty() && !data.is_empty() {
        let len = data.len() as u32;
        out.extend_from_slice(&len.v_be());
        out.extend_from_slice(data);
    }

    out
}

} // verus!
fn main() {}
