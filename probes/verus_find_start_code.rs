use vstd::prelude::*;
verus! {

pub open spec fn sc4_at(d: Seq<u8>, i: int) -> bool {
    0 <= i && i + 4 <= d.len() && d[i] == 0 && d[i+1] == 0 && d[i+2] == 0 && d[i+3] == 1
}
pub open spec fn sc3_at(d: Seq<u8>, i: int) -> bool {
    0 <= i && i + 3 <= d.len() && d[i] == 0 && d[i+1] == 0 && d[i+2] == 1
}
pub open spec fn sc_at(d: Seq<u8>, i: int) -> bool { sc4_at(d, i) || sc3_at(d, i) }

fn find_start_code(data: &[u8], from: usize) -> (r: Option<(usize, usize)>)
    requires data@.len() <= isize::MAX
    ensures
        match r {
            Some((pos, len)) => from <= pos && sc_at(data@, pos as int)
                && (forall|j: int| from <= j < pos ==> !sc_at(data@, j))
                && len == (if sc4_at(data@, pos as int) { 4usize } else { 3usize }),
            None => forall|j: int| from <= j ==> !sc_at(data@, j),
        }
{
    if data.len() < 3 || from >= data.len() {
        return None;
    }

    let mut i = from;
    while i + 3 <= data.len()
        invariant from <= i, data.len() >= 3, i <= data.len(), data@.len() <= isize::MAX,
            forall|j: int| from <= j < i ==> !sc_at(data@, j),
        decreases data.len() - i,
    {
        // Check 4-byte start code first
        if i + 4 <= data.len()
            && data[i] == 0
            && data[i + 1] == 0
            && data[i + 2] == 0
            && data[i + 3] == 1
        {
            return Some((i, 4));
        }
        // Check 3-byte start code
        if data[i] == 0 && data[i + 1] == 0 && data[i + 2] == 1 {
            return Some((i, 3));
        }
        i += 1;
    }
    None
}

struct AnnexBNalIter<'a> {
    data: &'a [u8],
    cursor: usize,
}

impl<'a> AnnexBNalIter<'a> {
    #[inline]
    fn new(data: &'a [u8]) -> (r: Self)
        ensures r.data@ == data@, r.cursor == 0
    {
        Self { data, cursor: 0 }
    }

    fn next(&mut self) -> (r: Option<&'a [u8]>)
        requires old(self).cursor <= old(self).data@.len(), old(self).data@.len() <= isize::MAX
        ensures final(self).data@ == old(self).data@,
            final(self).cursor <= final(self).data@.len(),
    {
        let (start_code_pos, start_code_len) = find_start_code(self.data, self.cursor)?;
        let nal_start = start_code_pos + start_code_len;

        // Find the next start code (or end of data)
        let nal_end = match find_start_code(self.data, nal_start) {
            Some((next_pos, _)) => next_pos,
            None => self.data.len(),
        };

        self.cursor = nal_end;
        Some(&self.data[nal_start..nal_end])
    }
}

} // verus!
fn main() {}
