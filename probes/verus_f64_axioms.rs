use vstd::prelude::*;
use vstd::std_specs::ops::*;
verus! {
#[verifier::external_body]
pub broadcast proof fn axiom_f64_mul_req(a: f64, b: f64)
    ensures #[trigger] a.mul_req(b)
{}
#[verifier::external_body]
pub broadcast proof fn axiom_f64_add_req(a: f64, b: f64)
    ensures #[trigger] a.add_req(b)
{}
#[verifier::external_body]
pub broadcast proof fn axiom_f64_div_req(a: f64, b: f64)
    ensures #[trigger] a.div_req(b)
{}
fn t(a: f64, b: u32, c: u64) -> (r: u64)
{
    broadcast use axiom_f64_mul_req, axiom_f64_add_req, axiom_f64_div_req;
    let x = a * b as f64;
    let y = x + 1.0;
    let z = c as f64 / 1000.0;
    let w = x as u64;
    if a < 0.0 { 0 } else { w }
}
}
fn main(){}
