use vstd::prelude::*;
verus! {

pub open spec fn be32(x: u32) -> Seq<u8> {
    seq![(x >> 24) as u8, (x >> 16) as u8, (x >> 8) as u8, x as u8]
}
pub open spec fn be32_seq(s: Seq<u32>) -> Seq<u8>
    decreases s.len()
{
    if s.len() == 0 { Seq::empty() } else { be32_seq(s.drop_last()) + be32(s.last()) }
}

pub trait VBe32 { fn v_be(self) -> (r: [u8; 4]); }
impl VBe32 for u32 {
    #[verifier::external_body]
    fn v_be(self) -> (r: [u8; 4])
        ensures r@ == be32(self)
    { self.to_be_bytes() }
}

fn build_box(typ: &[u8; 4], payload: &[u8]) -> (buffer: Vec<u8>)
    requires payload.len() + 8 <= u32::MAX
    ensures buffer@ == be32((8 + payload.len()) as u32) + typ@ + payload@
{
    let length = (8 + payload.len()) as u32;
    let mut buffer = Vec::with_capacity(payload.len() + 8);
    buffer.extend_from_slice(&length.v_be());
    buffer.extend_from_slice(typ);
    buffer.extend_from_slice(payload);
    assert(buffer.len() == 8 + payload.len());
    buffer
}

fn build_stco_box(chunk_offsets: &[u32]) -> (r: Vec<u8>)
    requires chunk_offsets.len() * 4 + 16 <= u32::MAX
    ensures r@ == be32((16 + 4*chunk_offsets.len()) as u32) + seq![0x73u8,0x74,0x63,0x6f] + (be32(0) + be32(chunk_offsets.len() as u32) + be32_seq(chunk_offsets@))
{
    let mut payload = Vec::new();
    payload.extend_from_slice(&0u32.v_be());

    payload.extend_from_slice(&(chunk_offsets.len() as u32).v_be());
    for offset in it: chunk_offsets
        invariant payload@ == be32(0) + be32(chunk_offsets.len() as u32) + be32_seq(chunk_offsets@.take(it.index@)),
           payload@.len() == 8 + 4 * it.index@,
    {
        proof {
            let k = it.index@;
            assert(chunk_offsets@.take(k+1).drop_last() =~= chunk_offsets@.take(k));
            assert(chunk_offsets@.take(k+1).last() == *offset);
        }
        payload.extend_from_slice(&offset.v_be());
    }
    proof { assert(chunk_offsets@.take(chunk_offsets@.len() as int) =~= chunk_offsets@); }
    build_box(&[0x73u8, 0x74, 0x63, 0x6f], &payload) // R3 applied: was b"stco"
}

} // verus!
fn main() {}
