use vstd::prelude::*;
use vstd::std_specs::ops::*;
verus! {
#[verifier::external_body]
pub broadcast proof fn axiom_f64_mul_req(a: f64, b: f64) ensures #[trigger] a.mul_req(b) {}
pub uninterp spec fn f64_is_finite(x: f64) -> bool;
pub uninterp spec fn f64_round(x: f64) -> f64;
pub assume_specification [f64::is_finite] (x: f64) -> (r: bool) ensures r == f64_is_finite(x);
pub assume_specification [f64::round] (x: f64) -> (r: f64) ensures r == f64_round(x);

const MEDIA_TIMESCALE: u32 = 90_000;

pub struct AdtsValidationError { pub k: u8 }
enum Mp4WriterError {
    NonIncreasingTimestamp, FirstFrameMustBeKeyframe, FirstFrameMissingSpsPps, FirstFrameMissingSequenceHeader,
    FirstFrameMissingVp9Config, InvalidAdts, InvalidAdtsDetailed(Box<AdtsValidationError>), InvalidOpusPacket,
    AudioNotEnabled, DurationOverflow, AlreadyFinalized,
}
pub struct IoError { pub k: u8 }
enum MuxerError {
    MissingVideoConfig, Io(IoError), AlreadyFinished,
    NegativeVideoPts { pts: f64, frame_index: u64 },
    InvalidVideoPts { pts: f64, frame_index: u64 },
    EmptyVideoFrame { frame_index: u64 },
    NonIncreasingVideoPts { prev_pts: f64, curr_pts: f64, frame_index: u64 },
    FirstVideoFrameMustBeKeyframe, FirstVideoFrameMissingSpsPps, FirstAv1FrameMissingSequenceHeader, FirstVp9FrameMissingSequenceHeader,
    InvalidAdts { frame_index: u64 }, InvalidAdtsDetailed { frame_index: u64, error: Box<AdtsValidationError> },
    InvalidOpusPacket { frame_index: u64 }, AudioNotConfigured,
}
struct Mp4Writer { n: u64, finalized: bool }
impl Mp4Writer {
    #[verifier::external_body]
    fn write_video_sample(&mut self, pts: u64, data: &[u8], is_keyframe: bool) -> (r: Result<(), Mp4WriterError>)
        ensures r is Err ==> *final(self) == *old(self), r is Ok ==> final(self).n == old(self).n + 1
    { unimplemented!() }
}
struct Muxer {
    writer: Mp4Writer,
    first_video_pts: Option<f64>,
    last_video_pts: Option<f64>,
    video_frame_count: u64,
}
impl Muxer {
    fn write_video(
        &mut self,
        pts: f64,
        data: &[u8],
        is_keyframe: bool,
    ) -> (r: Result<(), MuxerError>)
        requires old(self).video_frame_count < u64::MAX
        ensures r is Err ==> *final(self) == *old(self)
    {
        broadcast use axiom_f64_mul_req;
        let frame_index = self.video_frame_count;

        // Reject empty frames - they cause playback issues
        if data.is_empty() {
            return Err(MuxerError::EmptyVideoFrame { frame_index });
        }

        // Validate PTS is finite (not NaN or Inf)
        if !pts.is_finite() {
            return Err(MuxerError::InvalidVideoPts { pts, frame_index });
        }

        // Validate PTS is non-negative
        if pts < 0.0 {
            return Err(MuxerError::NegativeVideoPts { pts, frame_index });
        }

        // Validate PTS is strictly increasing
        if let Some(prev) = self.last_video_pts {
            if pts <= prev {
                return Err(MuxerError::NonIncreasingVideoPts {
                    prev_pts: prev,
                    curr_pts: pts,
                    frame_index,
                });
            }
        }

        let scaled_pts = (pts * MEDIA_TIMESCALE as f64).round();
        let pts_units = scaled_pts as u64;

        if self.first_video_pts.is_none() {
            self.first_video_pts = Some(pts);
        }

        self.writer
            .write_video_sample(pts_units, data, is_keyframe)
            .map_err(|e| self.convert_mp4_error(e, frame_index))?;

        self.last_video_pts = Some(pts);
        self.video_frame_count += 1;
        Ok(())
    }

    fn convert_mp4_error(&self, err: Mp4WriterError, frame_index: u64) -> MuxerError {
        match err {
            Mp4WriterError::NonIncreasingTimestamp => MuxerError::NonIncreasingVideoPts {
                prev_pts: self.last_video_pts.unwrap_or(0.0),
                curr_pts: 0.0, // We don't have access here, but validation above catches this
                frame_index,
            },
            Mp4WriterError::FirstFrameMustBeKeyframe => MuxerError::FirstVideoFrameMustBeKeyframe,
            Mp4WriterError::FirstFrameMissingSpsPps => MuxerError::FirstVideoFrameMissingSpsPps,
            Mp4WriterError::FirstFrameMissingSequenceHeader => {
                MuxerError::FirstAv1FrameMissingSequenceHeader
            }
            Mp4WriterError::FirstFrameMissingVp9Config => {
                MuxerError::FirstVp9FrameMissingSequenceHeader
            }
            Mp4WriterError::InvalidAdts => MuxerError::InvalidAdts { frame_index },
            Mp4WriterError::InvalidAdtsDetailed(error) => {
                MuxerError::InvalidAdtsDetailed { frame_index, error }
            }
            Mp4WriterError::InvalidOpusPacket => MuxerError::InvalidOpusPacket { frame_index },
            Mp4WriterError::AudioNotEnabled => MuxerError::AudioNotConfigured,
            Mp4WriterError::DurationOverflow => MuxerError::Io(IoError { k: 1 }),
            Mp4WriterError::AlreadyFinalized => MuxerError::AlreadyFinished,
        }
    }
}
}
fn main(){}
