use vstd::prelude::*;
verus! {

pub open spec fn be16(x: u16) -> Seq<u8> { seq![(x >> 8) as u8, x as u8] }
pub open spec fn be32(x: u32) -> Seq<u8> {
    seq![(x >> 24) as u8, (x >> 16) as u8, (x >> 8) as u8, x as u8]
}
pub open spec fn dec32(s: Seq<u8>, o: int) -> int {
    (s[o] as int) * 16777216 + (s[o+1] as int) * 65536 + (s[o+2] as int) * 256 + (s[o+3] as int)
}
proof fn lemma_dec_be32(x: u32)
    ensures dec32(be32(x), 0) == x as int
{
    assert(((x >> 24) as u8 as int) * 16777216 + ((x >> 16) as u8 as int) * 65536 + ((x >> 8) as u8 as int) * 256 + (x as u8 as int) == x as int) by(bit_vector);
}
pub trait VBe32 { fn v_be(self) -> (r: [u8; 4]); }
impl VBe32 for u32 {
    #[verifier::external_body]
    fn v_be(self) -> (r: [u8; 4]) ensures r@ == be32(self) { self.to_be_bytes() }
}
pub trait VBe16 { fn v_be(self) -> (r: [u8; 2]); }
impl VBe16 for u16 {
    #[verifier::external_body]
    fn v_be(self) -> (r: [u8; 2]) ensures r@ == be16(self) { self.to_be_bytes() }
}

fn build_box(typ: &[u8; 4], payload: &[u8]) -> (buffer: Vec<u8>)
    requires payload.len() + 8 <= u32::MAX
    ensures buffer@ == be32((8 + payload.len()) as u32) + typ@ + payload@
{
    let length = (8 + payload.len()) as u32;
    let mut buffer = Vec::with_capacity(payload.len() + 8);
    buffer.extend_from_slice(&length.v_be());
    buffer.extend_from_slice(typ);
    buffer.extend_from_slice(payload);
    assert(buffer.len() == 8 + payload.len());
    buffer
}

#[verifier::external_body]
fn encode_language_code(language: &str) -> (r: [u8; 2]) { unimplemented!() }

fn build_mdhd_box_with_timescale_and_duration(
    timescale: u32,
    duration: u64,
    language: Option<&str>,
) -> (r: Vec<u8>)
    ensures
        r@.len() == 32,                                   // 14496-12 8.4.2, version 0
        dec32(r@, 0) == 32,
        r@.subrange(4, 8) == seq![0x6du8, 0x64, 0x68, 0x64],
        dec32(r@, 8) == 0,                                 // version 0, flags 0
        dec32(r@, 20) == timescale as int,
        dec32(r@, 24) == duration as int,                  // C16: exact value or no file
{
    let mut payload = Vec::new();
    payload.extend_from_slice(&0u32.v_be()); // version + flags
    payload.extend_from_slice(&0u32.v_be()); // creation_time
    payload.extend_from_slice(&0u32.v_be()); // modification_time
    payload.extend_from_slice(&timescale.v_be());
    payload.extend_from_slice(&(duration as u32).v_be()); // duration
    payload.extend_from_slice(&encode_language_code(language.unwrap_or("und"))); // language
    payload.extend_from_slice(&0u16.v_be()); // pre_defined
    proof {
        lemma_dec_be32(timescale); lemma_dec_be32(duration as u32); lemma_dec_be32(0u32); lemma_dec_be32(32u32);
    }
    let r = build_box(&[0x6du8, 0x64, 0x68, 0x64], &payload);
    proof {
        assert(r@.subrange(4,8) =~= seq![0x6du8, 0x64, 0x68, 0x64]);
        assert(r@.subrange(0,4) =~= be32(32u32));
        assert(r@.subrange(20,24) =~= be32(timescale));
        assert(r@.subrange(24,28) =~= be32(duration as u32));
        assert(r@.subrange(8,12) =~= be32(0u32));
    }
    r
}
}
fn main(){}
