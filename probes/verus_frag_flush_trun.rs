use vstd::prelude::*;
verus! {
pub open spec fn be32(x: u32) -> Seq<u8> { seq![(x >> 24) as u8, (x >> 16) as u8, (x >> 8) as u8, x as u8] }
pub trait VBe32 { fn v_be(self) -> (r: [u8; 4]); }
impl VBe32 for u32 { #[verifier::external_body] fn v_be(self) -> (r: [u8; 4]) ensures r@ == be32(self) { self.to_be_bytes() } }
impl VBe32 for i32 { #[verifier::external_body] fn v_be(self) -> (r: [u8; 4]) ensures r@ == be32(self as u32) { self.to_be_bytes() } }

pub assume_specification<T: Default> [std::mem::take::<T>] (x: &mut T) -> (r: T)
    ensures r == *old(x), call_ensures(T::default, (), *final(x));

#[derive(Debug, Clone)]
struct FragmentSample { pts: u64, dts: u64, data: Vec<u8>, is_sync: bool }

struct FragmentedMuxer {
    samples: Vec<FragmentSample>,
    sequence_number: u32,
    base_media_decode_time: u64,
    last_dts: Option<u64>,
    timescale: u32,
}

#[verifier::external_body]
fn build_media_segment(samples: &[FragmentSample], sequence_number: u32, base_media_decode_time: u64, _timescale: u32) -> (r: Vec<u8>) { unimplemented!() }

fn build_box(typ: &[u8; 4], payload: &[u8]) -> (buf: Vec<u8>)
    requires payload.len() + 8 <= u32::MAX
    ensures buf@ == be32((8 + payload.len()) as u32) + typ@ + payload@
{
    let size = (8 + payload.len()) as u32;
    let mut buf = Vec::with_capacity(size as usize);
    buf.extend_from_slice(&size.v_be());
    buf.extend_from_slice(typ);
    buf.extend_from_slice(payload);
    buf
}

impl FragmentedMuxer {
    fn flush_segment(&mut self) -> (r: Option<Vec<u8>>)
        ensures old(self).samples@.len() == 0 ==> r is None && *final(self) == *old(self),
                old(self).samples@.len() > 0 ==> r is Some && final(self).samples@.len() == 0 && final(self).sequence_number == old(self).sequence_number + 1,
    {
        if self.samples.is_empty() {
            return None;
        }

        let samples = std::mem::take(&mut self.samples);
        let segment = build_media_segment(
            &samples,
            self.sequence_number,
            self.base_media_decode_time,
            self.timescale,
        );

        // Update state for next segment
        self.sequence_number += 1;
        if let Some(last) = samples.last() {
            // Estimate next base_media_decode_time
            if samples.len() >= 2 {
                let duration_total = last.dts.saturating_sub(samples[0].dts);
                let avg_duration = duration_total / (samples.len() as u64 - 1);
                self.base_media_decode_time = last.dts + avg_duration;
            } else {
                self.base_media_decode_time = last.dts + 3000; // Fallback: 1 frame at 30fps
            }
        }

        Some(segment)
    }
}

fn build_trun(samples: &[FragmentSample], data_offset: u32) -> (r: Vec<u8>)
    requires samples@.len() < 0x0800_0000,
{
    let flags: u32 = 0x000001 | 0x000100 | 0x000200 | 0x000400 | 0x000800;

    let mut payload = Vec::new();
    // Version 1 for signed composition time offsets
    payload.extend_from_slice(&(0x0100_0000 | flags).v_be());
    payload.extend_from_slice(&(samples.len() as u32).v_be()); // Sample count
    payload.extend_from_slice(&data_offset.v_be()); // Data offset

    // Per-sample data
    for i in 0..samples.len()
        invariant payload@.len() == 12 + 16 * i, samples@.len() < 0x0800_0000,
    {
        let sample = &samples[i];
        // Sample duration (estimate from DTS delta)
        let duration = if i + 1 < samples.len() {
            (samples[i + 1].dts - sample.dts) as u32
        } else if i > 0 {
            // Use previous duration for last sample
            (sample.dts - samples[i - 1].dts) as u32
        } else {
            3000 // Default: 1 frame at 30fps
        };
        payload.extend_from_slice(&duration.v_be());

        // Sample size
        payload.extend_from_slice(&(sample.data.len() as u32).v_be());

        let flags = if sample.is_sync {
            0x0200_0000_u32 // depends_on = 2, is_non_sync = 0
        } else {
            0x0101_0000_u32 // depends_on = 1, is_non_sync = 1
        };
        payload.extend_from_slice(&flags.v_be());

        // Composition time offset (signed, pts - dts)
        let cts = (sample.pts as i64 - sample.dts as i64) as i32;
        payload.extend_from_slice(&cts.v_be());
    }

    build_box(&[0x74u8, 0x72, 0x75, 0x6e], &payload)
}
}
fn main(){}
