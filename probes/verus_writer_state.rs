use vstd::prelude::*;
verus! {

#[derive(Debug, Clone, Copy, PartialEq, Eq)]
enum VideoCodec { H264, H265, Av1, Vp9 }

#[derive(Debug)]
enum Mp4WriterError {
    NonIncreasingTimestamp,
    FirstFrameMustBeKeyframe,
    FirstFrameMissingSpsPps,
    DurationOverflow,
    AlreadyFinalized,
}

struct SampleInfo {
    pts: u64,
    dts: u64, // Decode time (for B-frames: dts != pts)
    data: Vec<u8>,
    is_keyframe: bool,
    duration: Option<u32>,
}

struct Mp4Writer<Writer> {
    writer: Writer,
    video_codec: VideoCodec,
    video_samples: Vec<SampleInfo>,
    video_prev_pts: Option<u64>,
    video_last_delta: Option<u32>,
    finalized: bool,
    bytes_written: u64,
}

pub assume_specification<T: Clone> [<[T]>::to_vec] (s: &[T]) -> (r: Vec<T>)
    ensures r@.len() == s@.len(), forall|i: int| 0 <= i < s@.len() ==> cloned(s@[i], #[trigger] r@[i]);

#[verifier::external_body]
fn annexb_to_avcc(data: &[u8]) -> (r: Vec<u8>) { unimplemented!() }

impl<Writer> Mp4Writer<Writer> {
    fn write_video_sample_with_dts(
        &mut self,
        pts: u64,
        dts: u64,
        data: &[u8],
        is_keyframe: bool,
    ) -> (r: Result<(), Mp4WriterError>)
      ensures r.is_err() ==> final(self).video_samples@ == old(self).video_samples@
    {
        if self.finalized {
            return Err(Mp4WriterError::AlreadyFinalized);
        }
        // DTS must be monotonically increasing (decode order)
        if let Some(prev) = self.video_prev_pts {
            if dts <= prev {
                return Err(Mp4WriterError::NonIncreasingTimestamp);
            }
            let delta = dts - prev;
            if delta > u64::from(u32::MAX) {
                return Err(Mp4WriterError::DurationOverflow);
            }
            let delta = delta as u32;
            if let Some(last) = self.video_samples.last_mut() {
                last.duration = Some(delta);
            }
            self.video_last_delta = Some(delta);
        } else {
            if !is_keyframe {
                return Err(Mp4WriterError::FirstFrameMustBeKeyframe);
            }
        }

        let converted = match self.video_codec {
            VideoCodec::H264 => annexb_to_avcc(data),
            VideoCodec::H265 => annexb_to_avcc(data),
            VideoCodec::Av1 => data.to_vec(), // AV1 OBUs passed as-is
            VideoCodec::Vp9 => data.to_vec(), // VP9 compressed frames passed as-is
        };
        if converted.len() > u32::MAX as usize {
            return Err(Mp4WriterError::DurationOverflow);
        }

        self.video_samples.push(SampleInfo {
            pts,
            dts,
            data: converted,
            is_keyframe,
            duration: None,
        });
        self.video_prev_pts = Some(dts); // Track DTS for monotonic check
        Ok(())
    }
}
} // verus!
fn main() {}
