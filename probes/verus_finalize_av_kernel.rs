use vstd::prelude::*;
verus! {

// ---------- environment stand-ins (R11) ----------
pub struct IoError { pub k: u8 }
pub type IoResult<T> = Result<T, IoError>;
pub struct VSink { pub accepted: Ghost<Seq<u8>>, pub failed: Ghost<bool> }
impl VSink {
    #[verifier::external_body]
    pub fn write_all(&mut self, buf: &[u8]) -> (r: IoResult<()>)
        requires !old(self).failed@
        ensures
            r is Ok ==> final(self).accepted@ == old(self).accepted@ + buf@ && !final(self).failed@,
            r is Err ==> final(self).failed@ && exists|k: int| 0 <= k <= buf@.len() && final(self).accepted@ == old(self).accepted@ + buf@.take(k),
    { unimplemented!() }
}

#[derive(Clone, Copy)]
enum TrackKind { Video, Audio }

struct SampleInfo { pts: u64, dts: u64, data: Vec<u8>, is_keyframe: bool, duration: Option<u32> }

struct W {
    writer: VSink,
    video_samples: Vec<SampleInfo>,
    audio_samples: Vec<SampleInfo>,
    bytes_written: u64,
}

pub open spec fn vcount(s: Seq<(u64, TrackKind, usize)>, j: int) -> int decreases j {
    if j <= 0 { 0 } else { vcount(s, j-1) + (if s[j-1].1 is Video { 1int } else { 0int }) }
}
pub open spec fn acount(s: Seq<(u64, TrackKind, usize)>, j: int) -> int decreases j {
    if j <= 0 { 0 } else { acount(s, j-1) + (if s[j-1].1 is Audio { 1int } else { 0int }) }
}
spec fn pbytes(v: Seq<SampleInfo>, k: int) -> int decreases k {
    if k <= 0 { 0 } else { pbytes(v, k-1) + v[k-1].data@.len() }
}
proof fn lemma_pbytes_mono(v: Seq<SampleInfo>, a: int, b: int)
    requires 0 <= a <= b
    ensures 0 <= pbytes(v, a) <= pbytes(v, b)
    decreases b
{ if a < b { lemma_pbytes_mono(v, a, b-1); } else if a > 0 { lemma_pbytes_mono(v, a-1, a-1); lemma_pbytes_mono(v, 0, a-1);} }
spec fn sched_ok(s: Seq<(u64, TrackKind, usize)>, nv: int, na: int) -> bool {
    &&& s.len() == nv + na
    &&& vcount(s, s.len() as int) == nv
    &&& acount(s, s.len() as int) == na
    &&& forall|j: int| 0 <= j < s.len() ==> (s[j].1 is Video ==> s[j].2 as int == vcount(s, j)) && (s[j].1 is Audio ==> s[j].2 as int == acount(s, j))
}

proof fn lemma_counts_mono(s: Seq<(u64, TrackKind, usize)>, j: int, n: int)
    requires 0 <= j <= n
    ensures vcount(s, j) <= vcount(s, n), acount(s, j) <= acount(s, n), vcount(s, j) >= 0, acount(s, j) >= 0
    decreases n - j
{
    if j < n { lemma_counts_mono(s, j + 1, n); }
    lemma_nonneg(s, j);
}
proof fn lemma_nonneg(s: Seq<(u64, TrackKind, usize)>, j: int)
    ensures vcount(s, j) >= 0, acount(s, j) >= 0
    decreases j
{ if j > 0 { lemma_nonneg(s, j-1); } }

impl W {
    #[verifier::external_body]
    fn compute_interleave_schedule(&self) -> (r: Vec<(u64, TrackKind, usize)>)
        ensures sched_ok(r@, self.video_samples@.len() as int, self.audio_samples@.len() as int)
    { unimplemented!() }

    fn write_counted(writer: &mut VSink, bytes_written: &mut u64, buf: &[u8]) -> (r: IoResult<()>)
        requires !old(writer).failed@
        ensures
            r is Ok ==> final(writer).accepted@ == old(writer).accepted@ + buf@ && !final(writer).failed@,
            r is Err ==> final(writer).failed@,
    {
        *bytes_written = bytes_written.saturating_add(buf.len() as u64);
        writer.write_all(buf)
    }

    // kernel of finalize_standard (A/V branch), real statements, lines 755-778
    fn kernel(&mut self, ftyp_len: u32) -> (r: IoResult<(Vec<u32>, Vec<u32>)>)
        requires !old(self).writer.failed@,
            ftyp_len as int + 8 == old(self).writer.accepted@.len(),
            ftyp_len as int + 8 + pbytes(old(self).video_samples@, old(self).video_samples@.len() as int) + pbytes(old(self).audio_samples@, old(self).audio_samples@.len() as int) <= u32::MAX,
            forall|i: int| 0 <= i < old(self).video_samples@.len() ==> old(self).video_samples@[i].data@.len() <= u32::MAX,
            forall|i: int| 0 <= i < old(self).audio_samples@.len() ==> old(self).audio_samples@[i].data@.len() <= u32::MAX,
        ensures
            final(self).video_samples == old(self).video_samples,
            final(self).audio_samples == old(self).audio_samples,
            r is Ok ==> ({ let (vo, ao) = r->Ok_0; let f = final(self).writer.accepted@;
                &&& vo@.len() == final(self).video_samples@.len()
                &&& ao@.len() == final(self).audio_samples@.len()
                &&& forall|k: int| 0 <= k < vo@.len() ==> vo@[k] as int + final(self).video_samples@[k].data@.len() <= f.len()
                       && f.subrange(vo@[k] as int, vo@[k] as int + final(self).video_samples@[k].data@.len()) == final(self).video_samples@[k].data@
                &&& forall|k: int| 0 <= k < ao@.len() ==> ao@[k] as int + final(self).audio_samples@[k].data@.len() <= f.len()
                       && f.subrange(ao@[k] as int, ao@[k] as int + final(self).audio_samples@[k].data@.len()) == final(self).audio_samples@[k].data@
            }),
    {
        let schedule = self.compute_interleave_schedule();
        let mut video_chunk_offsets = Vec::with_capacity(self.video_samples.len());
        let mut audio_chunk_offsets = Vec::with_capacity(self.audio_samples.len());
        proof { lemma_pbytes_mono(self.video_samples@, 0, self.video_samples@.len() as int); lemma_pbytes_mono(self.audio_samples@, 0, self.audio_samples@.len() as int); }
        let mut cursor = ftyp_len + 8; // After ftyp + mdat header

        let ghost S = schedule@;
        let ghost base = self.writer.accepted@.len() as int;
        let ghost V = self.video_samples@;
        let ghost A = self.audio_samples@;
        let ghost nv = V.len() as int;
        let ghost na = A.len() as int;
        for (_, kind, idx) in it: schedule
            invariant
                it.seq() == S, sched_ok(S, nv, na),
                self.video_samples@ == V, self.audio_samples@ == A, V.len() == nv, A.len() == na,
                self.video_samples == old(self).video_samples, self.audio_samples == old(self).audio_samples,
                !self.writer.failed@,
                video_chunk_offsets@.len() == vcount(S, it.index@ as int),
                audio_chunk_offsets@.len() == acount(S, it.index@ as int),
                cursor as int == self.writer.accepted@.len(),
                cursor as int == base + pbytes(V, vcount(S, it.index@ as int)) + pbytes(A, acount(S, it.index@ as int)),
                base + pbytes(V, nv) + pbytes(A, na) <= u32::MAX,
                forall|i: int| 0 <= i < nv ==> (#[trigger] V[i]).data@.len() <= u32::MAX,
                forall|i: int| 0 <= i < na ==> (#[trigger] A[i]).data@.len() <= u32::MAX,
                forall|k: int| 0 <= k < video_chunk_offsets@.len() ==> (#[trigger] video_chunk_offsets@[k]) as int + V[k].data@.len() <= self.writer.accepted@.len()
                    && self.writer.accepted@.subrange(video_chunk_offsets@[k] as int, video_chunk_offsets@[k] as int + V[k].data@.len()) == V[k].data@,
                forall|k: int| 0 <= k < audio_chunk_offsets@.len() ==> (#[trigger] audio_chunk_offsets@[k]) as int + A[k].data@.len() <= self.writer.accepted@.len()
                    && self.writer.accepted@.subrange(audio_chunk_offsets@[k] as int, audio_chunk_offsets@[k] as int + A[k].data@.len()) == A[k].data@,
        {
            let ghost j = it.index@ as int;
            let ghost acc0 = self.writer.accepted@;
            proof {
                lemma_counts_mono(S, j, S.len() as int); lemma_counts_mono(S, j + 1, S.len() as int);
                lemma_pbytes_mono(V, vcount(S, j), nv); lemma_pbytes_mono(A, acount(S, j), na);
                lemma_pbytes_mono(V, vcount(S, j + 1), nv); lemma_pbytes_mono(A, acount(S, j + 1), na);
                lemma_nonneg(S, j);
                assert(S[j] == (S[j].0, kind, idx));
            }
            match kind {
                TrackKind::Video => {
                    video_chunk_offsets.push(cursor);
                    let sample = &self.video_samples[idx];
                    let sample_len = sample.data.len() as u32;
                    Self::write_counted(&mut self.writer, &mut self.bytes_written, &sample.data)?;
                    cursor += sample_len;
                    proof {
                        let acc = self.writer.accepted@;
                        assert(acc == acc0 + V[idx as int].data@);
                        assert forall|k: int| 0 <= k < video_chunk_offsets@.len() implies (#[trigger] video_chunk_offsets@[k]) as int + V[k].data@.len() <= acc.len()
                            && acc.subrange(video_chunk_offsets@[k] as int, video_chunk_offsets@[k] as int + V[k].data@.len()) == V[k].data@ by {
                            if k < video_chunk_offsets@.len() - 1 {
                                assert(acc.subrange(video_chunk_offsets@[k] as int, video_chunk_offsets@[k] as int + V[k].data@.len()) =~= acc0.subrange(video_chunk_offsets@[k] as int, video_chunk_offsets@[k] as int + V[k].data@.len()));
                            } else {
                                assert(acc.subrange(acc0.len() as int, (acc0.len() + V[k].data@.len()) as int) =~= V[k].data@);
                            }
                        }
                        assert forall|k: int| 0 <= k < audio_chunk_offsets@.len() implies (#[trigger] audio_chunk_offsets@[k]) as int + A[k].data@.len() <= acc.len()
                            && acc.subrange(audio_chunk_offsets@[k] as int, audio_chunk_offsets@[k] as int + A[k].data@.len()) == A[k].data@ by {
                            assert(acc.subrange(audio_chunk_offsets@[k] as int, audio_chunk_offsets@[k] as int + A[k].data@.len()) =~= acc0.subrange(audio_chunk_offsets@[k] as int, audio_chunk_offsets@[k] as int + A[k].data@.len()));
                        }
                    }
                }
                TrackKind::Audio => {
                    audio_chunk_offsets.push(cursor);
                    let sample = &self.audio_samples[idx];
                    let sample_len = sample.data.len() as u32;
                    Self::write_counted(&mut self.writer, &mut self.bytes_written, &sample.data)?;
                    cursor += sample_len;
                    proof {
                        let acc = self.writer.accepted@;
                        assert(acc == acc0 + A[idx as int].data@);
                        assert forall|k: int| 0 <= k < audio_chunk_offsets@.len() implies (#[trigger] audio_chunk_offsets@[k]) as int + A[k].data@.len() <= acc.len()
                            && acc.subrange(audio_chunk_offsets@[k] as int, audio_chunk_offsets@[k] as int + A[k].data@.len()) == A[k].data@ by {
                            if k < audio_chunk_offsets@.len() - 1 {
                                assert(acc.subrange(audio_chunk_offsets@[k] as int, audio_chunk_offsets@[k] as int + A[k].data@.len()) =~= acc0.subrange(audio_chunk_offsets@[k] as int, audio_chunk_offsets@[k] as int + A[k].data@.len()));
                            } else {
                                assert(acc.subrange(acc0.len() as int, (acc0.len() + A[k].data@.len()) as int) =~= A[k].data@);
                            }
                        }
                        assert forall|k: int| 0 <= k < video_chunk_offsets@.len() implies (#[trigger] video_chunk_offsets@[k]) as int + V[k].data@.len() <= acc.len()
                            && acc.subrange(video_chunk_offsets@[k] as int, video_chunk_offsets@[k] as int + V[k].data@.len()) == V[k].data@ by {
                            assert(acc.subrange(video_chunk_offsets@[k] as int, video_chunk_offsets@[k] as int + V[k].data@.len()) =~= acc0.subrange(video_chunk_offsets@[k] as int, video_chunk_offsets@[k] as int + V[k].data@.len()));
                        }
                    }
                }
            }
        }
        Ok((video_chunk_offsets, audio_chunk_offsets))
    }
}
}
fn main(){}
