use vstd::prelude::*;
verus! {
fn parse_color_config(
    reader: &mut BitReader,
    seq_profile: u8,
) -> (r: Option<(bool, bool, bool, bool, bool, u8)>)
    requires old(reader).wf() ensures final(reader).wf()
{
    // high_bitdepth: 1 bit
    let high_bitdepth = reader.read_bit()?;

    let twelve_bit = if seq_profile == 2 && high_bitdepth {
        reader.read_bit()?
    } else {
        false
    };

    let bit_depth = if seq_profile == 2 && twelve_bit {
        12
    } else if high_bitdepth {
        10
    } else {
        8
    };

    let monochrome = if seq_profile == 1 {
        false
    } else {
        reader.read_bit()?
    };

    // color_description_present_flag: 1 bit
    let color_description_present = reader.read_bit()?;
    let (color_primaries, transfer_characteristics, matrix_coefficients) =
        if color_description_present {
            let cp = reader.read_bits(8)? as u8;
            let tc = reader.read_bits(8)? as u8;
            let mc = reader.read_bits(8)? as u8;
            (cp, tc, mc)
        } else {
            (2, 2, 2) // Unspecified
        };

    let (chroma_subsampling_x, chroma_subsampling_y, _chroma_sample_position) = if monochrome {
        // color_range: 1 bit
        reader.read_bit()?;
        (true, true, 0)
    } else if color_primaries == 1 && transfer_characteristics == 13 && matrix_coefficients == 0 {
        // sRGB/sYCC
        (false, false, 0)
    } else {
        // color_range: 1 bit
        reader.read_bit()?;

        if seq_profile == 0 {
            (true, true, 0)
        } else if seq_profile == 1 {
            (false, false, 0)
        } else if bit_depth == 12 {
            let subsampling_x = reader.read_bit()?;
            let subsampling_y = if subsampling_x {
                reader.read_bit()?
            } else {
                false
            };
            (subsampling_x, subsampling_y, 0)
        } else {
            (true, false, 0)
        }
    };

    let chroma_sample_position = if chroma_subsampling_x && chroma_subsampling_y {
        reader.read_bits(2)? as u8
    } else {
        0
    };

    // separate_uv_delta_q: 1 bit (if not monochrome)
    if !monochrome {
        reader.read_bit()?;
    }

    Some((
        high_bitdepth,
        twelve_bit,
        monochrome,
        chroma_subsampling_x,
        chroma_subsampling_y,
        chroma_sample_position,
    ))
}

fn skip_uvlc(reader: &mut BitReader) -> (r: Option<()>)
    requires old(reader).wf() ensures final(reader).wf()
{
    let mut leading_zeros = 0;
    while !reader.read_bit()?
        invariant reader.wf(), leading_zeros <= 32
        decreases 33 - leading_zeros
    {
        leading_zeros += 1;
        if leading_zeros > 32 {
            return None;
        }
    }
    if leading_zeros > 0 {
        reader.skip_bits(leading_zeros)?;
    }
    Some(())
}

struct BitReader<'a> {
    data: &'a [u8],
    byte_pos: usize,
    bit_pos: usize,
}

impl<'a> BitReader<'a> {
    spec fn wf(&self) -> bool { self.bit_pos < 8 && self.byte_pos <= self.data@.len() }
    fn new(data: &'a [u8]) -> (r: Self) ensures r.wf() {
        Self {
            data,
            byte_pos: 0,
            bit_pos: 0,
        }
    }

    fn read_bit(&mut self) -> (r: Option<bool>)
        requires old(self).wf() ensures final(self).wf(), final(self).data == old(self).data
    {
        if self.byte_pos >= self.data.len() {
            return None;
        }
        let bit = (self.data[self.byte_pos] >> (7 - self.bit_pos)) & 1;
        self.bit_pos += 1;
        if self.bit_pos == 8 {
            self.bit_pos = 0;
            self.byte_pos += 1;
        }
        Some(bit != 0)
    }

    fn read_bits(&mut self, count: usize) -> (r: Option<u64>)
        requires old(self).wf() ensures final(self).wf()
    {
        if count > 64 {
            return None;
        }
        let mut value = 0u64;
        for _i in 0..count
            invariant self.wf()
        {
            value = (value << 1) | (self.read_bit()? as u64);
        }
        Some(value)
    }

    fn skip_bits(&mut self, count: usize) -> (r: Option<()>)
        requires old(self).wf() ensures final(self).wf()
    {
        for _i in 0..count
            invariant self.wf()
        {
            self.read_bit()?;
        }
        Some(())
    }
}

fn read_leb128(data: &[u8]) -> Option<(u64, usize)> {
    let mut value: u64 = 0;
    let mut shift = 0;

    for i in 0..(if data.len() < 8 { data.len() } else { 8 }) {
        let byte = data[i];
        value |= ((byte & 0x7F) as u64) << shift;
        if (byte & 0x80) == 0 {
            return Some((value, i + 1));
        }
        shift += 7;
    }
    None
}
}
fn main(){}
