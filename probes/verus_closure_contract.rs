use vstd::prelude::*;
verus! {
enum E1 { A, B }
enum E2 { X, Y(u64) }
struct W { n: u64 }
impl W {
    fn put(&mut self, v: u64) -> (r: Result<(), E1>)
        ensures r.is_err() ==> *final(self) == *old(self),
                r.is_ok() ==> final(self).n == v,
                r is Err <==> v == 7,
                r is Err ==> r->Err_0 is A,
    { if v == 7 { Err(E1::A) } else { self.n = v; Ok(()) } }
}
struct M { w: W, last: Option<u64>, cnt: u64 }
impl M {
    spec fn conv_spec(&self, e: E1, i: u64) -> E2 { match e { E1::A => E2::X, E1::B => E2::Y(i) } }
    fn conv(&self, e: E1, i: u64) -> (r: E2) ensures r == self.conv_spec(e, i)
    { match e { E1::A => E2::X, E1::B => E2::Y(i) } }
    fn write(&mut self, v: u64) -> (r: Result<(), E2>)
        requires old(self).cnt < 1000
        ensures r.is_err() ==> *final(self) == *old(self),
                r is Err ==> r->Err_0 is X,
    {
        let idx = self.cnt;
        self.w.put(v).map_err(|e: E1| -> (r2: E2) ensures r2 == self.conv_spec(e, idx) { self.conv(e, idx) })?;
        self.last = Some(v);
        self.cnt += 1;
        Ok(())
    }
}
}
fn main(){}
